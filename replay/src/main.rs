//! Native replay of a Kani counterexample: `replay <harness> <hex,hex,...>`; each hex string is one recorded
//! `kani::any()` byte vector (little endian), in call order.  Prints one line `REPLAY-RESULT: ...` and exits 0.
#[cfg(not(kani))]
mod counting {
    use std::alloc::{GlobalAlloc, Layout, System};
    use std::sync::atomic::Ordering;
    /// Counts alloc + realloc calls into the harness crate's counter (C17 allocator-call obligations).
    pub struct Counting;
    unsafe impl GlobalAlloc for Counting {
        unsafe fn alloc(&self, l: Layout) -> *mut u8 {
            fc_harness::allocstub::NATIVE_CALLS.fetch_add(1, Ordering::SeqCst);
            System.alloc(l)
        }
        unsafe fn dealloc(&self, p: *mut u8, l: Layout) {
            System.dealloc(p, l)
        }
        unsafe fn realloc(&self, p: *mut u8, l: Layout, n: usize) -> *mut u8 {
            fc_harness::allocstub::NATIVE_CALLS.fetch_add(1, Ordering::SeqCst);
            System.realloc(p, l, n)
        }
    }
}

#[cfg(not(kani))]
#[global_allocator]
static GLOBAL: counting::Counting = counting::Counting;

#[cfg(not(kani))]
fn main() {
    use std::panic;
    let args: Vec<String> = std::env::args().collect();
    if args.len() < 2 {
        eprintln!("usage: replay <harness> [hexvec,hexvec,...]");
        std::process::exit(64);
    }
    let name = &args[1];
    let vals: Vec<Vec<u8>> = match args.get(2) {
        Some(s) if !s.is_empty() => s
            .split(',')
            .map(|h| {
                if h == "-" {
                    return Vec::new();
                }
                (0..h.len()).step_by(2).map(|i| u8::from_str_radix(&h[i..i + 2], 16).unwrap()).collect()
            })
            .collect(),
        _ => Vec::new(),
    };
    let f = match fc_harness::registry::HARNESSES.iter().find(|(n, _)| n == name) {
        Some((_, f)) => *f,
        None => {
            println!("REPLAY-RESULT: unknown-harness {name}");
            std::process::exit(65);
        }
    };
    fc_harness::sym::replay::load(vals);
    let msg = std::sync::Arc::new(std::sync::Mutex::new(String::new()));
    let m2 = msg.clone();
    panic::set_hook(Box::new(move |info| {
        let loc = info.location().map(|l| format!("{}:{}:{}", l.file(), l.line(), l.column())).unwrap_or_default();
        let payload = if let Some(s) = info.payload().downcast_ref::<&str>() {
            s.to_string()
        } else if let Some(s) = info.payload().downcast_ref::<String>() {
            s.clone()
        } else {
            "<non-string panic payload>".to_string()
        };
        let mut g = m2.lock().unwrap();
        if g.is_empty() {
            *g = format!("{payload} @ {loc}");
        }
    }));
    let r = panic::catch_unwind(f);
    let exhausted = fc_harness::sym::replay::exhausted();
    let draws = fc_harness::sym::replay::draws();
    let remaining = fc_harness::sym::replay::remaining();
    match r {
        Ok(()) => println!("REPLAY-RESULT: returned draws={draws} exhausted={exhausted} remaining={remaining}"),
        Err(_) => {
            let m = msg.lock().unwrap().replace('\n', " ");
            println!("REPLAY-RESULT: panicked draws={draws} exhausted={exhausted} remaining={remaining} msg={m}");
        }
    }
}

#[cfg(kani)]
fn main() {}
