#!/usr/bin/env python3
"""Writes /verif/MANIFEST.json from the table below (run by hand after changing what is claimed)."""
import json, os, subprocess

HERE = os.path.dirname(os.path.abspath(__file__))
VERIF = os.path.dirname(HERE)

TECH = ("bounded symbolic execution of the compiled /repo code with Kani 0.68 (MIR -> goto), unrolled by CBMC 6.11 and "
        "decided by CaDiCaL; counterexamples replayed natively (dev + release) before being reported")

COMMON_NOTE = ("Trusted base: Kani/CBMC/CaDiCaL, rustc. Every verdict is 'for all inputs within the bounds stated per harness in the "
               "evidence (coverage.samples[*].bounds)'; nothing is claimed outside them. Unwinding assertions are on; time-outs, out-of-memory "
               "and non-reproducing counterexamples are reported as inconclusive (exit 2), never as pass or violation. Generic code is decided "
               "per concrete instantiation (listed in the evidence). Allocation never fails. ")

CLAIMS = {
    "C01": ("Round trip for 32 catalogued compositions: two (thorough: three) adjacent symbolic items are pushed and read back "
            "(length, one symbolic position, emptiness, full iteration, into_owned), no library panic reachable. Bounded model checking is the right level: "
            "the property is a per-value functional statement and the solver quantifies over all values of the bounded shapes (all u8/usize/i128/char/f64-bit values, "
            "all byte contents, all 1-4-byte UTF-8 scalars of the generator's lead-byte classes).",
            "Symbolic lengths only for byte slices in two-item harnesses; strings, rows and nested slices have concrete shapes from a fixed rotation with symbolic contents. "
            "Not covered: columns of string regions (exhaust 12 GB), into_owned of columns, Huffman/dictionary containers (their kernels are under C06/C07), items longer than 3 elements, nesting deeper than 2.", "3 C01"),
    "C02": ("Append-only: bounded histories (push, reserve_regions, push, push; thorough: 5 pushes crossing storage reallocation) on 23 compositions with every earlier index re-read after every step.",
            "Histories are short (3-5 steps) with concrete shapes; long random histories are outside the technique. Index-container representation switches are decided in C05, bit-packed appends in C06.", "3 C02"),
    "C03": ("FlatStack as a sequence for Vec, IndexOptimized and IndexList index containers: len/is_empty/get/iter/cloned iter/size hints after copies of unconstrained usize values, extend == from_iter == repeated copy (also for iterators without a size hint and stack-to-stack), reserve invisible, clone independent, clear empties, get(i>=len) must panic.",
            "2-3 copies; Debug output not covered.", "3 C03"),
    "C04": ("(a) adjacent multi-byte strings read back byte-identical and valid UTF-8 in every string-bearing composition incl. cloned, merged, cleared regions and the generation-0 dictionary region; "
            "(b) the runner enumerates every `impl Push<T> for StringRegion` and every `unsafe` in the CURRENT sources and generates one harness per impl: string-like T get valid strings, byte-like T get arbitrary bytes and must still yield valid UTF-8 (a byte-accepting write path is refuted with concrete invalid bytes).",
            "The program-text enumeration is syntactic support, not the verdict; an impl whose T has no generator or an unexpected `unsafe` site is reported as uncovered and makes the check inconclusive (exit 2). Strings: lead bytes C2..DF/E1..EC/F1..F3 (E0, ED, F0, F4 special cases outside the bound). Serde restoration is under C16; dictionary tables with entries only at byte level (C07).", "3 C04"),
    "C05": ("Index containers vs a model array: Stride acceptance rule (documented pattern evaluated without wrap-around), state untouched on reject, len/is_empty/index/iter for Stride, IndexList, IndexOptimized, Vec<usize> over unconstrained 64-bit values, with clear; thorough adds one-step obligations from any valid Striding/Saturated state (covers histories of any length) and longer sequences.",
            "Sequences of 2-3 (thorough 4-5) pushes; IndexOptimized additionally from concrete mode prefixes. Path-wise CBMC exploration (--paths lifo) is raced with the merged formula for the heap-shape-symbolic containers.", "3 C05"),
    "C06": ("The bit-level kernels underneath the Huffman container, on the real private code through verif-hooks: BitIterator::next one step at every alignment (3 symbolic bytes, any cursor), Decoder end-of-item on empty / Symbol-root / Further-root tables (the >= 512 symbol case), one real insert_decode into a void table, Decoder::next one step from an arbitrary mid-stream state (uniform 1- and 2-bit codes, a nested 9-bit table built by the real insert_decode at a byte-aligned position; thorough 3-bit and the nested table at any position), push_symbols + Encoder with a one-entry code of symbolic length (1..4, thorough 1..8 bits) and of 10 bits (wider than a byte) with a symbolic code word from a symbolic pre-state (range, byte length, earlier bits unchanged, new bits), refusal of unknown symbols.",
            "NOT decided (cannot be encoded: every path inserts into B-trees, measured time-outs in DESIGN.md 1.2): HuffmanContainer::push/merge_regions, create_from, code optimality, >= 1 bit per symbol, the single-symbol alphabet, raw mode, multi-symbol alphabets in the encoder. One-step obligations rely on the stated state invariants.", "3 C06"),
    "C07": ("One push/read step from every valid single-entry dictionary state (entry bytes, tag in {0,1,2}, pushed bytes all symbolic; lengths 0..3): exact bytes back or refusal, an entry costs exactly one byte; append-only across coded and literal items; clear; generation 0 through the public API incl. the empty string.",
            "NOT decided: DictionaryCodec::new_from (choice of heavy hitters/tags), generations of merges, > 1024 distinct strings, several dictionary entries at once (B-tree inserts cannot be encoded).", "3 C07"),
    "C08": ("Twin run per composition: history, clear, pushes vs the same pushes on Default::default(): equal indices, reads and used bytes; a second variant reuses the shape of the last item before the clear so that stale dedup memory or offsets would be hit.",
            "Histories of 1-2 items before and after the clear. HuffmanContainer::clear not encodable.", "3 C08"),
    "C09": ("clone / clone_from (destination pre-filled longer, or empty) on 23 Clone-able compositions (incl. Result and tuple regions whose BOTH halves keep state): the copy reads identically, answers an identical push identically, and diverging pushes/clears on one side never change the other.",
            "Histories of 1-2 items. DictionaryCodec is not Clone; Huffman table clone not covered.", "3 C09"),
    "C10": ("reserve_regions between pushes vs a twin that never reserves (equal indices and reads); merge_regions over populated+empty sources, over no sources and over the target's own ancestor vs Default::default().",
            "Announced sizes are those of 1-2-item regions. Coded regions only in the states their kernels are decided in (C06/C07). HuffmanContainer::reserve_regions is todo!() upstream.", "3 C10"),
    "C11": ("CollapseSequence over OwnedRegion<u8>, StringRegion, MirrorRegion<f64>, ConsecutiveIndexPairs<StringRegion>: three pushes of equal-shape symbolic values - index repeats and no byte is added iff equal to the immediate predecessor; boundaries: clear, merge_regions, clone.",
            "3 pushes; nesting inside tuples/columns/slices is exercised through C01/C02 harnesses of those compositions only.", "3 C11"),
    "C12": ("Dense indices 0,1,2 in push order for ConsecutiveIndexPairs over three inner regions and three offset containers and for ColumnsRegion with two offset containers; restart at 0 after clear and on merge_regions; one-step: push returns the previous count and the row reads back with exactly its length and cells.",
            "3 pushes, rows 0..3 wide. ConsecutiveIndexPairs<CollapseSequence<_>> violates the type's documented precondition and is excluded.", "3 C12"),
    "C13": ("Fail-stop accessors: ReadSlice (region-backed and owned-borrowed; over u8, strings, nested), ReadColumns (both representations), for any symbolic i >= len the call must panic (must-panic obligations), in-bounds positions return the item's own element although neighbours are adjacent.",
            "Items of 1-3 elements with adjacent neighbours. FlatStack::get out of bounds is decided under C03.", "3 C13"),
    "C14": ("IntoOwned laws on &[u8], &str, ReadSlice (both representations), ReadColumns, Option/Result/tuple read items and raw Wrapped items: into_owned, clone_onto with empty/shorter/longer/other-variant targets of symbolic contents and from EMPTY items onto non-empty targets, borrow_as round trip, reborrow, region-to-region push from both representations.",
            "Items of <= 3 elements. Huffman-ENCODED Wrapped items are covered for a uniform 2-bit code whose decoding table is written down by a verif-hook (two code words of one symbolic byte): into_owned and clone_onto onto shorter/longer targets; codes built by merge_regions are out of reach (B-tree).", "3 C14"),
    "C15": ("==, partial_cmp, cmp of ReadSlice items coincide with the lexicographic order of the owned vectors for all pairs of <= 3 symbolic bytes with symbolic lengths in four representation combinations, rows of strings, nested slices (thorough), a triple cross-check, and raw Wrapped items.",
            "Agreement with a total order on all pairs implies the order axioms. Raw vs Huffman-ENCODED Wrapped items are compared for a uniform 2-bit code (table written by a verif-hook, two code words) against raw items of 1..3 symbols, one comparison operator per harness; encoded vs encoded and codes built by merge_regions are not covered.", "3 C15"),
    "C16": ("Serde round trip through a positional token format (so that exactly the derived Serialize/Deserialize code is executed): Stride (all variants, symbolic fields), IndexList, IndexOptimized in four modes, CollapseSequence, ConsecutiveIndexPairs, FlatStack, SliceRegion, OwnedRegion, StringRegion, Option/Result/Tuple regions - copy reads identically and answers a symbolic continuation identically (same indices, dedup and index-compression decisions). Stride (quick) and IndexList (thorough) are additionally decided through a self-describing token format with serde_json's data model (name-keyed maps, name-tagged enums, null, one number type), where serde attributes such as untagged / rename / flatten show their effect.",
            "Concrete shapes with symbolic values (symbolic shapes exhaust memory). The positional format agrees with a self-describing one for plain derives only: when the crate's serde code asks for map / any / string support the harness reports HARNESS-LIMIT and the check is INCONCLUSIVE (exit 2), not a violation. The self-describing format costs 10-30x under CBMC and decides the two smallest states only. ColumnsRegion is decided for the fresh region only (any push after the round trip: out of memory / time-out in both engines). serde's own container impls are trusted as compiled.", "3 C16"),
    "C17": ("Capacity form: after reserve_items / reserve_regions / merge_regions / FlatStack::merge_capacity, pushing exactly the announced batch (incl. empty items, Some/None and Ok/Err mixes, nested slices, owned-Vec input form, plain vectors under Option/Result whose reserve_items arrives through filtering iterators) leaves every capacity reported by heap_size unchanged, on empty and populated targets, for the vector-backed structural regions. Allocator-call form with counting stubs on std::alloc::alloc and alloc::alloc::realloc_nonnull: no allocator call at all while announced plain-data contents are pushed, none for a push that fits the storage, and one growth step of the byte storage is 0 calls if the data fits, else exactly 1 with the capacity at least doubling (=> O(log n) calls for n pushes by induction on the step).",
            "Batches of 2-3 items; growth step for 5 concrete (capacity, length, added) triples with symbolic contents. Stubs: std::alloc::alloc, alloc::alloc::realloc_nonnull -> counting wrappers that allocate through std::alloc::System; a witness harness checks on every run that the stubs are in effect. Runs of 2^6..2^14 as such are outside the technique; the logarithmic bound is an arithmetic inference from the one-step obligation.", "3 C17"),
    "C18": ("heap_size accounting on 23 compositions: used <= capacity for every pair, sum of used covers the model payload after dedup and is monotone on push, after clear the payload is no longer accounted and no capacity shrank; every branch contributes (Err side, second tuple field, third column, FlatStack indices, slice index entries).",
            "Histories push, push, clear. Coded regions excluded (compressed bytes; Huffman heap_size is todo!()).", "3 C18"),
    "C19": ("IndexOptimized heap cost equals the documented rule computed on a model (free stride prefix, 4 bytes per u32 entry, 8 from the first larger value) for unconstrained sequences and from each mode; the dense-index step Striding(1,c).push(c) is absorbed for any c; FlatStacks over consecutive-pair and columns regions spend zero bytes (used and capacity) on their own indices.",
            "Sequences of 2-3 (thorough 4) values; the any-number-of-items claim rests on the one-step obligation plus C12.", "3 C19"),
    "C20": ("Twin runs where one region receives a history mixing all input forms (owned, &, &&, array, slice, Vec, &Vec, PushIter, read items in both representations) and the other the canonical form: equal indices and used bytes after every step, equal reads - for OwnedRegion, StringRegion, SliceRegion, ColumnsRegion, Mirror/Vec/Option/Result/Tuple regions and through wrappers.",
            "One value per form with concrete shape, incl. the empty value, a narrower row after a wider one for the read-item and owned-Vec forms, and an owned Vec with spare capacity pushed onto a full non-empty region; Huffman container forms not covered (B-tree). The runner compares the impl Push headers of the current sources with the list the form tables were written against and reports a new header as uncovered (evidence and stderr; the exit code is unaffected).", "3 C20"),
}

READY = os.environ.get("READY", "").split()


def main():
    props = [json.loads(l) for l in open(os.path.join(VERIF, "properties.jsonl"))]
    ready = READY or sorted(CLAIMS)
    checks, na = [], []
    for p in props:
        pid = p["id"]
        if pid in ready and pid in CLAIMS:
            text, note, ref = CLAIMS[pid]
            checks.append(dict(
                property_id=pid,
                quick_cmd="./check %s --tier quick" % pid,
                thorough_cmd="./check %s --tier thorough" % pid,
                evidence_file="evidence/%s.json" % pid,
                replay_cmd_template="./check --replay {path}",
                engine="kani-cbmc",
                level_claimed=dict(category="model_checking", text=text, design_ref="DESIGN.md section " + ref),
                level_note=COMMON_NOTE + note,
                technique=TECH,
            ))
        else:
            na.append(dict(property_id=pid, reason="check not built yet (construction in progress)"))
    try:
        hook_commits = subprocess.run(["git", "-C", "/repo", "log", "--format=%h %s", "--grep", "verif hooks"], capture_output=True, text=True).stdout.strip().splitlines()
    except Exception:
        hook_commits = []
    m = dict(
        version=1,
        setup_cmd="true",
        hooks=dict(guard="cargo feature `verif-hooks` of flatcontainer (off by default)",
                   enable="the harness crate /verif/harness depends on flatcontainer { path = \"/repo\", features = [\"verif-hooks\"] }; every check recompiles /repo's working tree through `cargo kani --only-codegen`",
                   baseline_off_cmd="cd /repo && cargo test --workspace --no-fail-fast --offline",
                   source_commits=[c.split()[0] for c in hook_commits],
                   add_only=True),
        engines=[dict(name="kani-cbmc", path="/verif/check", serves_properties=[c["property_id"] for c in checks],
                      kind_free_text="Kani 0.68 codegen (cargo kani --only-codegen) + own goto-cc/goto-instrument/cbmc pipeline (CBMC 6.11, CaDiCaL), merged-formula and path-wise (--paths lifo) symbolic execution raced where stated; native replay crate /verif/replay")],
        checks=checks,
        notes="See DESIGN.md. Exit codes of ./check: 0 held / only known findings, 1 replay-confirmed violation (VIOLATION line), 2 inconclusive. known_findings.json lists fixed/open defects.",
        not_applicable=na,
    )
    json.dump(m, open(os.path.join(VERIF, "MANIFEST.json"), "w"), indent=1)
    print("MANIFEST.json: %d checks, %d not applicable" % (len(checks), len(na)))


if __name__ == "__main__":
    main()
