#!/bin/bash
# Runs every seeded change against the checks expected to notice it (and neighbours); appends to .cache/seedlogs/summary.txt
cd /verif
R=.cache/seedlogs/summary.txt; mkdir -p .cache/seedlogs; : > $R
run() { tools/seedtest.sh "$@" >> $R 2>&1; }
run S01-indexlist-push-guard C05 C01 C02 C03
run S02-indexopt-stride-first C03 C05
run S03-indexlist-is-empty C05 C03
run S04-cip-clear-early-return C08 C12
run S05-collapse-clone-from C09 C11
run S06-readslice-get-empty-item C13
run S07-indexopt-heap-size-guard C18 C19
run S08-indexlist-u32max-boundary C19 C05
run S09-cip-clone-from-indices C04 C09
run S10-huffman-clear-keeps-stats C06 C08
run S11-dictionary-new-from-tag-shift C07
run S12-columns-reserve-truncates C10 C02
run S13-wrapped-clone-onto-appends C14
run S14-readslice-eq-fast-path C15
run S15-collapse-serde-skip C16 C11
run S16-vec-reserve-vs-capacity C17
run S17-readslice-empty-push-index C20 C14
run S18-stride-saturating-mul C05 C19
run S19-pushstorage-swap-when-empty C17 C20
run S20-columns-push-readcolumns-truncates C20 C12 C13 C14
run S21-indexlist-clear-drops-chonk C18 C05
run S22-indexopt-clone-from-stale-spill C09
run S23-slice-reserve-regions-underflow C10 C02
run S24-stride-serde-untagged C16
run S25-indexlist-clear-keeps-smol C05 C08
run S26-indexopt-reserve-allocates C19 C03
echo DONE >> $R
