#!/usr/bin/env python3
"""Prints quick / thorough-only harness counts per property from the harness metadata (for DESIGN.md §3.0)."""
import importlib.machinery, importlib.util, sys, os
V = os.path.dirname(os.path.dirname(os.path.abspath(__file__)))
l = importlib.machinery.SourceFileLoader("chk", os.path.join(V, "check"))
m = importlib.util.module_from_spec(importlib.util.spec_from_loader("chk", l))
sys.argv = ["check"]
l.exec_module(m)
tq = tt = 0
for i in range(1, 21):
    p = "C%02d" % i
    hs = m.parse_meta(p)
    hs = hs.values() if isinstance(hs, dict) else hs
    q = sum(1 for h in hs if h.get("tier", "quick") == "quick")
    t = sum(1 for h in hs if h.get("tier") == "thorough")
    kinds = sorted({h.get("kind", "proof") for h in hs}); eng = sorted({h.get("engine", "merge") for h in hs})
    tq += q; tt += t
    print(p, "%d / %d" % (q, t), ",".join(kinds), ",".join(eng))
print("total", tq, tt)
