#!/usr/bin/env python3
"""One-off generator for the table-driven harness modules (the generated .rs files are committed and may be hand-edited
afterwards; this script is NOT run by the checks)."""
import sys, os

HERE = os.path.dirname(os.path.abspath(__file__))
SRC = os.path.join(HERE, "..", "harness", "src")

# (suffix, Cat type, instantiation, value bound)
CATALOGUE = [
    ("mir_u8", "MirU8", "MirrorRegion<u8>", "any u8"),
    ("mir_usize", "MirUsize", "MirrorRegion<usize>", "any usize"),
    ("mir_i128", "MirI128", "MirrorRegion<i128>", "any i128"),
    ("mir_char", "MirChar", "MirrorRegion<char>", "any scalar value"),
    ("mir_unit", "MirUnit", "MirrorRegion<()>", "()"),
    ("mir_f64", "MirF64", "MirrorRegion<f64>", "any f64 bit pattern (NaN payloads included), compared by bits"),
    ("own_u8", "OwnU8", "OwnedRegion<u8>", "<=3 symbolic bytes; length symbolic in C01 round trips, else rotation 2,3,0,1"),
    ("own_unit", "OwnUnit", "OwnedRegion<()>", "<=3 zero-sized elements"),
    ("str", "Str", "StringRegion", "string of the shape rotation [2+3 bytes],[4],[],[1+2],[3],[1] with symbolic contents"),
    ("vec_u8", "VecU8", "Vec<u8> as region", "any u8"),
    ("opt_str", "OptStr", "OptionRegion<StringRegion>", "None or Some(shape-rotation string)"),
    ("res_str_u8", "ResStrU8", "ResultRegion<StringRegion, MirrorRegion<u8>>", "Ok(shape-rotation string) or Err(any u8)"),
    ("tup_str_u16", "TupStrU16", "TupleABRegion<StringRegion, MirrorRegion<u16>>", "(shape-rotation string, any u16)"),
    ("res_own_own", "ResOwnOwn", "ResultRegion<OwnedRegion<u8>, OwnedRegion<u8>>", "Ok or Err (symbolic) of symbolic bytes, lengths 2,3,0,1 (rotation)"),
    ("tup_own_own", "TupOwnOwn", "TupleABRegion<OwnedRegion<u8>, OwnedRegion<u8>>", "pair of symbolic byte strings, lengths 2,3,0,1 (rotation)"),
    ("slice_u8", "SliceU8", "SliceRegion<MirrorRegion<u8>>", "<=3 symbolic bytes; length symbolic in C01 round trips, else rotation 2,3,0,1"),
    ("slice_usize_opt", "SliceUsizeOpt", "SliceRegion<MirrorRegion<usize>, IndexOptimized> (the stored offsets are the pushed values)", "2 unconstrained usize values"),
    ("slice_str", "SliceStr", "SliceRegion<StringRegion>", "row of 2,1,0 short strings (rotation), symbolic contents"),
    ("slice_cip_str", "SliceCipStr", "SliceRegion<ConsecutiveIndexPairs<StringRegion, IndexOptimized>, IndexOptimized>", "row of 2,1,0 short strings (rotation), symbolic contents"),
    ("slice_slice_u8", "SliceSliceU8", "SliceRegion<SliceRegion<MirrorRegion<u8>>>", "2,1,0 ragged rows (rotation) of 2,1,0 symbolic bytes"),
    ("col_u8", "ColU8", "ColumnsRegion<MirrorRegion<u8>> (IndexOptimized offsets)", "rows 2,3,0,1 cells wide (rotation), symbolic cells"),
    ("col_u8_vec", "ColU8Vec", "ColumnsRegion<MirrorRegion<u8>, Vec<usize>>", "rows 2,3,0,1 cells wide (rotation), symbolic cells"),
    ("col_cip_str", "ColCipStr", "ColumnsRegion<ConsecutiveIndexPairs<StringRegion>>", "row of 2,1,0 short strings (rotation), symbolic contents"),
    ("col_collapse_cip_str", "ColCollapseCipStr", "ColumnsRegion<CollapseSequence<ConsecutiveIndexPairs<StringRegion>>>", "row of 2,1,0 short strings (rotation), symbolic contents"),
    ("collapse_own", "CollapseOwn", "CollapseSequence<OwnedRegion<u8>>", "symbolic bytes, lengths 2,3,0,1 (rotation)"),
    ("collapse_str", "CollapseStr", "CollapseSequence<StringRegion>", "shape-rotation string"),
    ("collapse_f64", "CollapseF64", "CollapseSequence<MirrorRegion<f64>>", "any f64 bit pattern"),
    ("cip_own_opt", "CipOwnOpt", "ConsecutiveIndexPairs<OwnedRegion<u8>, IndexOptimized>", "symbolic bytes, lengths 2,3,0,1 (rotation)"),
    ("cip_own_vec", "CipOwnVec", "ConsecutiveIndexPairs<OwnedRegion<u8>, Vec<usize>>", "symbolic bytes, lengths 2,3,0,1 (rotation)"),
    ("cip_own_list", "CipOwnList", "ConsecutiveIndexPairs<OwnedRegion<u8>, IndexList<Vec<u32>,Vec<u64>>>", "symbolic bytes, lengths 2,3,0,1 (rotation)"),
    ("cip_str", "CipStr", "ConsecutiveIndexPairs<StringRegion>", "shape-rotation string"),
    ("cip_slice_u8", "CipSliceU8", "ConsecutiveIndexPairs<SliceRegion<MirrorRegion<u8>>>", "symbolic bytes, lengths 2,3,0,1 (rotation)"),
    ("collapse_cip_str", "CollapseCipStr", "CollapseSequence<ConsecutiveIndexPairs<StringRegion>>", "shape-rotation string"),
]
BY = {c[0]: c for c in CATALOGUE}


# measured peak RSS (GB, rounded up + 1) of the heavier generated harnesses: the runner's admission control uses it
MEMW = {"c02_hist_col_u8": 5, "c09_clone_from_longer_col_u8": 5, "c09_clone_col_u8": 5, "c12_dense_col_u8": 5}


def emit(prop, header, body_fn, rows):
    """rows: (suffix, tier, unwind, extra_meta, fn_generic, bounds_fmt, desc)"""
    out = [header]
    for row in rows:
        (suffix, tier, unwind, extra, generic, bounds, desc) = row[:7]
        pre = row[7] if len(row) > 7 else None  # (name suffix, statement executed before the generic body)
        _, ty, inst, vb = BY[suffix]
        name = "%s_%s_%s" % (prop.lower(), generic, suffix)
        if pre:
            name += "_" + pre[0]
        if name in MEMW:
            extra = (extra + " " if extra else "") + "memw=%d" % MEMW[name]
        out.append('// @h prop=%s tier=%s kind=proof %sinst="%s" bounds="%s" desc="%s"' % (
            prop, tier, (extra + " ") if extra else "", inst, bounds.format(v=vb), desc))
        if tier == "thorough":
            out.append('#[cfg(feature = "thorough")]')
        out.append("#[cfg_attr(kani, kani::proof, kani::unwind(%d))]" % unwind)
        if pre:
            out.append("pub fn %s() {\n    %s\n    %s::<%s>();\n}\n" % (name, pre[1], generic, ty))
        else:
            out.append("pub fn %s() {\n    %s::<%s>();\n}\n" % (name, generic, ty))
    return "\n".join(out)


if __name__ == "__main__":
    which = sys.argv[1]
    mod = __import__("gen_" + which)
    open(os.path.join(SRC, which + ".rs"), "w").write(mod.generate(emit, CATALOGUE, BY))
    print("wrote", which)
