#!/bin/bash
# usage: verify_seed.sh <out-dir> : confirms a candidate mutation in a fresh scratch worktree of /repo HEAD:
#   patch applies; crate compiles; existing suite passes with it; demo fails with it and passes without it.
set -u
OUT=$1
WT=$(mktemp -d /tmp/seedwt.XXXX)
rmdir $WT
git -C /repo worktree add -q --detach $WT HEAD || exit 9
cd $WT
res=""
if ! git apply --check $OUT/patch.diff 2>/dev/null; then echo "RESULT patch-does-not-apply"; git -C /repo worktree remove --force $WT; exit 1; fi
git apply $OUT/patch.diff
if git diff --name-only | grep -qv '^src/'; then res="$res touches-non-src"; fi
export CARGO_NET_OFFLINE=true
t1=$(cargo test --offline 2>&1 | grep "test result" | awk '{p+=$4; f+=$6} END {print p" passed "f" failed"}')
mkdir -p tests; cp $OUT/demo.rs tests/demo_mut.rs
d1=$(cargo test --offline --test demo_mut 2>&1 | grep "test result" | head -1)
git apply -R $OUT/patch.diff
d0=$(cargo test --offline --test demo_mut 2>&1 | grep "test result" | head -1)
echo "RESULT suite-with-patch: $t1 | demo-with-patch: $d1 | demo-without: $d0 $res"
cd /; git -C /repo worktree remove --force $WT
