#!/bin/bash
# usage: seedtest.sh <seed-dir-name> <PROP> [<PROP>...]
# Applies /verif/seeded/<name>/patch.diff to /repo, runs the quick checks of the given properties, reverts /repo.
# Prints one line per property: exit code and VIOLATION lines. Never leaves /repo modified.
set -u
S=/verif/seeded/$1; shift
cd /repo || exit 9
if [ -n "$(git status --porcelain -- src Cargo.toml)" ]; then echo "refusing: /repo has uncommitted changes"; exit 9; fi
git apply "$S/patch.diff" || { echo "patch does not apply"; exit 9; }
trap 'git -C /repo checkout -- . ' EXIT
mkdir -p /verif/.cache/seedlogs
for P in "$@"; do
  L=/verif/.cache/seedlogs/$(basename $S)-$P.log
  (cd /verif && ./check $P --tier quick --jobs 12 > $L 2>&1); rc=$?
  echo "$(basename $S) $P exit=$rc $(grep -c '^VIOLATION' $L) violation line(s): $(grep '  violation:' $L | head -3 | cut -c1-160 | tr '\n' ';')"
done
