#!/usr/bin/env python3
"""Writes /verif/seeded/<name>/meta.json from the table below and the results in .cache/seedlogs/summary.txt."""
import json, os, re
V = os.path.dirname(os.path.dirname(os.path.abspath(__file__)))
SEEDS = {
 "S01-indexlist-push-guard": ("C01 (also asked for C02; same change delivered twice)", "the `if self.chonk.is_empty()` guard of IndexList::push is 'simplified' away", "a value <= u32::MAX pushed after a value > u32::MAX into an IndexList / spilled IndexOptimized (offsets of non-monotone usize data)"),
 "S02-indexopt-stride-first": ("C03", "IndexOptimized::push always offers the value to the stride first, even after something spilled", "a value that continues the stride arriving after a spill (e.g. 5, 0 or 0,1,2,7,3): it is reordered ahead of the spilled values"),
 "S03-indexlist-is-empty": ("C05", "IndexList::is_empty looks at `smol` only", "the first value reaching the list is > u32::MAX: is_empty() is true with len() == 1, and IndexOptimized sends later values back to the stride"),
 "S04-cip-clear-early-return": ("C08 (the same change was delivered for C12)", "ConsecutiveIndexPairs::clear returns early when last_index == 0", "the history before the clear consists of empty items only (end offset still 0): clear does nothing, the next push returns index k instead of 0"),
 "S05-collapse-clone-from": ("C09 (the same change was delivered for C11)", "CollapseSequence::clone_from no longer copies last_index", "clone_from (not clone) into a destination whose own last index differs, then a push: wrong dedup decision or out-of-bounds read of the stale index"),
 "S06-readslice-get-empty-item": ("C13", "ReadSliceInner::get checks `index <= len.saturating_sub(1)`", "get(0) on an EMPTY region-backed slice item that is followed by another item returns that item's first element"),
 "S07-indexopt-heap-size-guard": ("C18", "IndexOptimized::heap_size reports the spill list only while it is non-empty", "offsets that spill, then clear: the retained capacity is no longer reported (capacity 'shrinks', number of reported pairs changes)"),
 "S08-indexlist-u32max-boundary": ("C19", "IndexList::push takes the u32 path only for index < u32::MAX (off by one)", "the exact value u32::MAX: it and every later entry cost 8 bytes instead of 4; all values still round-trip"),
 "S09-cip-clone-from-indices": ("C04", "ConsecutiveIndexPairs::clone_from no longer copies `indices`", "clone_from into a previously used region: strings are sliced at stale offsets (invalid UTF-8, never-pushed strings)"),
 "S10-huffman-clear-keeps-stats": ("C06", "HuffmanContainer::clear keeps the symbol statistics when the container was in encoded mode", "merge, push, clear, push another alphabet, merge again: non-optimal code, symbols from before the clear are accepted"),
 "S11-dictionary-new-from-tag-shift": ("C07", "DictionaryCodec::new_from skips empty heavy hitters with `continue` inside the tag loop (uses up a tag without a decode slot)", "a merge source that saw the empty string at least as often as another string: every later entry's encode tag is one ahead of its decode slot, reads return other bytes"),
 "S12-columns-reserve-truncates": ("C10", "ColumnsRegion::reserve_regions sizes its columns with resize_with(max source columns)", "reserve_regions on a populated region that has MORE columns than every announced source: trailing columns are dropped, wide rows read back short"),
 "S13-wrapped-clone-onto-appends": ("C14", "Wrapped::clone_onto no longer clears the target on the Huffman-encoded branch", "clone_onto of an ENCODED item onto a non-empty target appends instead of replacing"),
 "S14-readslice-eq-fast-path": ("C15", "ReadSlice::eq returns true when both operands are region-backed with the same (start, end)", "region-backed items of two DIFFERENT regions at the same offsets with different contents compare equal"),
 "S15-collapse-serde-skip": ("C16", "#[serde(skip)] on CollapseSequence::last_index", "the first push after deserialising repeats the last item pushed before serialising: the copy stores it again where the original collapses"),
 "S16-vec-reserve-vs-capacity": ("C17", "Storage::reserve for Vec only reserves if capacity() < additional (total capacity instead of spare room)", "pre-sizing an already populated region whose capacity covers the batch but whose spare room does not: the reservation is dropped and the announced pushes reallocate"),
 "S17-readslice-empty-push-index": ("C20", "Push<ReadSlice> for SliceRegion returns (0, 0) early for an empty read item", "an EMPTY slice pushed as a read item onto a non-empty region gets index (0,0) instead of (n,n); under ConsecutiveIndexPairs the dense-pairs debug assertion fires"),
 "S18-stride-saturating-mul": ("C05 (round 2)", "Stride::push compares `stride.saturating_mul(count) == item` instead of checked_mul", "sequences whose next stride product overflows and whose next value is usize::MAX (0, 2^63, usize::MAX): wrongly accepted"),
 "S19-pushstorage-swap-when-empty": ("C17 (round 2)", "PushStorage<&mut Vec<T>> for Vec<T> swaps the buffers when the receiver is empty instead of appending", "an EMPTY but pre-sized OwnedRegion whose first push is an owned Vec<T>: the reserved buffer is dropped, later pushes reallocate"),
 "S20-columns-push-readcolumns-truncates": ("C12 (round 2; the same change was delivered for C13 and C20)", "Push<ReadColumns> for ColumnsRegion sizes the columns with resize_with(item.len()) (also shrinks)", "a NARROWER row pushed as a read item after a wider row: trailing columns are dropped, the earlier row reads short / panics / aliases later data"),
 "S21-indexlist-clear-drops-chonk": ("C18 (round 2)", "IndexList::clear replaces the u64 list with a fresh default instead of clearing it", "an offset above u32::MAX was stored, then clear: the reported capacity of the u64 list shrinks to 0"),
 "S22-indexopt-clone-from-stale-spill": ("C09 (round 2)", "hand-written IndexOptimized::clone_from overwrites the spill list only if the source has spilled offsets", "destination already spilled (irregular lengths), source purely strided: the copy keeps a stale spilled tail, the next identical push returns a different index than on a clone"),
 "S23-slice-reserve-regions-underflow": ("C10 (round 2)", "SliceRegion::reserve_regions reserves `announced - self.slices.len()` (treats Vec's additional as a total)", "reserve_regions on a populated slice region with sources that hold fewer elements: subtraction underflow (panic in dev, capacity overflow / skipped in release)"),
 "S24-stride-serde-untagged": ("C16 (round 2)", "#[serde(untagged)] on enum Stride", "the unit variants Empty and Zero serialise identically: a container holding exactly [0] (every fresh consecutive-pairs region) deserialises as empty"),
 "S25-indexlist-clear-keeps-smol": ("C08 (round 2)", "IndexList::clear clears `smol` only when `chonk` is empty", "a list that held small offsets AND offsets above u32::MAX, then clear: the u32 prefix survives"),
 "S26-indexopt-reserve-allocates": ("C19 (round 2)", "IndexOptimized::reserve guard `!self.is_empty()` instead of `!self.spilled.is_empty()`", "reserve / extend on a non-empty, purely strided container allocates the spill vector: capacity becomes non-zero while used stays 0"),
 "S27-owned-empty-push-index": ("C01 (round 3)", "Push<&[T]> for OwnedRegion returns the index (0, 0) for an empty slice instead of (len, len)", "only in compositions that interpret the offsets: ConsecutiveIndexPairs<OwnedRegion/StringRegion> (dense-pairs assertion in dev, wrong item in release) when an empty value follows a non-empty one"),
 "S28-cip-index-uses-last-index": ("C12 (round 3; two cooperating edits)", "ConsecutiveIndexPairs::index takes the end offset of the newest item from the cached last_index; clone_from no longer copies last_index", "clone_from into a used region, then reading the last index before any further push: wrong length or slice-range panic"),
 "S29-readsliceinner-overcopy": ("C20 (round 3; the same change was delivered for C13)", "Push<ReadSliceInner> copies `skip(start).take(end)` instead of `take(end - start)`", "a region-backed read item that is neither first nor last in its source region: elements of the following items are copied too"),
 "S30-readslice-partial-cmp-tiebreak": ("C15 (round 3)", "ReadSlice::partial_cmp rewritten with a swapped length tie-break", "strict-prefix pairs (incl. empty vs non-empty) compare reversed under partial_cmp / < while cmp and == stay right"),
 "S31-cip-clone-from-plus-clear": ("C18 (round 3; two cooperating edits)", "ConsecutiveIndexPairs::clone_from drops last_index; clear only clears `inner` when last_index > 0", "clone_from into a fresh region followed by clear: all payload stays accounted in heap_size"),
 "S32-columns-clone-from-narrower": ("C09 (round 3)", "hand-written ColumnsRegion::clone_from reusing the destination's columns with the zip the wrong way round", "clone_from into a destination with FEWER columns than the source: a source column is dropped, later ones shift"),
 "S33-columns-merge-index-oob": ("C10 (round 3)", "ColumnsRegion::merge_regions indexes `r.inner[col]` for every non-empty source", "merging sources with different non-zero column counts whose column type consumes its sources (OwnedRegion, StringRegion): index out of bounds"),
 "S34-collapse-take-last-index": ("C11 (round 3)", "CollapseSequence::push tests `self.last_index.take()`", "runs of three or more equal items: every other equal push is stored again"),
 "S35-flatstack-clear-plus-is-empty": ("C08 (round 3; two cooperating edits)", "FlatStack::clear returns early when indices.is_empty(); IndexOptimized::is_empty looks at the stride only", "FlatStack<MirrorRegion<usize>, IndexOptimized> whose history starts with a non-zero value: clear is a no-op"),
 "S36-string-region-byte-push": ("C04 (self-made, for the program-text quantifier: 'any future one')", "a new `impl Push<&[u8]> for StringRegion` that forwards the bytes unchecked", "any byte string that is not UTF-8; no existing test calls the new impl"),
 "S37-decoder-tail-branch-le8": ("C06 (round 4, bit-level kernels)", "Decoder::next enters its end-of-data tail branch for `pending_bits <= 8` instead of `< 8`", "a symbol whose code is deeper than one byte starting exactly on a byte boundary of the encoded storage: panic 'decode incomplete (Further)'"),
 "S38-decoder-end-check-before-refill": ("C06 (round 4, bit-level kernels)", "the decoder's end-of-item check (no pending bits at the root => None) runs before the refill instead of after it", "an exactly-8-bit code (or 16 bits via a nested table) filling a byte-aligned byte with more symbols following: the item is silently cut short"),
 "S39-bytesmap-get-last-slot": ("C07 (round 4, per-item path)", "BytesMap::get bounds check `index + 1 < self.len()`: the last decode slot always reads as unassigned", "a string equal to the highest-tag dictionary entry is stored as its one-byte code and reads back as the raw tag byte"),
 "S40-dictionary-refusal-dense-tags": ("C07 (round 4, per-item path)", "the push-time refusal check tests `tag >= self.encode.len()` (assumes densely assigned tags)", "a dictionary that skipped low tag values (seen as first bytes in the sources): a literal whose first byte is an assigned tag above the entry count is accepted and reads back as the entry"),
 "S41-result-clone-from-errs": ("C01 (round 5, untouched sites)", "ResultRegion::clone_from no longer copies `errs`", "clone_from (not clone) of a ResultRegion whose Err side keeps state (strings, owned slices), then reading an Err item: stale bytes or a panic"),
 "S42-pushstorage-swap-nonempty": ("C02 (round 5)", "PushStorage<&mut Vec<T>> for Vec<T> swaps in the pushed vector's allocation when the region lacks room and the vector has spare capacity", "an owned Vec WITH SPARE CAPACITY >= the region's length pushed by value onto a non-empty OwnedRegion that has no room left: every earlier item is shifted"),
 "S43-flatstack-extend-size-hint": ("C03 (round 5)", "FlatStack::extend returns early when the iterator's size_hint lower bound is 0", "extend / from_iter fed by filter, flat_map, or another stack's iterator (IndexOptimized / IndexList iterators give no size hint): every item is dropped"),
 "S44-indexopt-extend-spill-once": ("C05 (round 5)", "IndexOptimized::extend tests 'already spilled?' once before the loop", "one extend call in which a value the stride rejects is followed by one it accepts (e.g. [3, 0] or [0,2,5,4]): stored out of order"),
 "S45-readslice-clone-onto-empty": ("C13 (round 5; breaks C14's clone_onto law)", "ReadSlice::clone_onto returns early for an empty item (skips the truncate)", "an EMPTY slice item cloned onto a reused, non-empty buffer: the previous contents stay"),
 "S46-readsliceiter-nth": ("C14 (round 5)", "a new ReadSliceIter::nth override sets start = n instead of start + n", "clone_onto of a region-backed slice item that is not first in its region onto a non-empty shorter target (skip() goes through nth)"),
 "S47-vec-reserve-items-size-hint": ("C17 (round 5)", "ReserveItems for Vec<T> reserves size_hint().0 instead of count()", "a plain-vector region under OptionRegion / ResultRegion / SliceRegion: their filtering iterators have lower bound 0, nothing is reserved, the announced pushes reallocate"),
 "S48-columns-clear-no-columns": ("C19 (round 5; breaks C08 / C12 directly)", "ColumnsRegion::clear returns early when no column exists", "a region that only ever held EMPTY rows: the row index list survives clear, numbering resumes at N"),
 "S49-columns-push-vec-truncates": ("C20 (round 5)", "Push<Vec<T>> for ColumnsRegion sizes the columns with resize_with(item.len()) (also shrinks)", "an OWNED Vec row narrower than an earlier row: trailing columns are dropped, earlier rows read back short"),
 "S50-slice-serde-flatten": ("C16 (round 5)", "#[serde(flatten)] on SliceRegion::inner", "a slice region nested over a region that also has a `slices` field (SliceRegion<SliceRegion<_>>, SliceRegion<OwnedRegion<_>>) through a self-describing format: duplicate field on deserialisation"),
 "S51-result-clear-skips-errs": ("C11 (round 5; breaks C08 directly)", "ResultRegion::clear clears `oks` twice and never `errs`", "a ResultRegion whose Err side keeps state, with a clear between pushes: Err indices continue after the clear, a collapsing Err side dedups against pre-clear data"),
 "S52-indexopt-clear-keeps-stride": ("C08 (round 6, untouched sites)", "IndexOptimized::clear resets the stride only when nothing has spilled, otherwise clears only the spill list", "a history with a stride prefix AND a spill before the clear (unequal item lengths, offsets 0,2,5): the stale stride survives, the first index after clear is not 0"),
 "S53-tuple-clone-from-first-only": ("C09 (round 6)", "the tuple regions' clone_from is rewritten as a recursive macro arm that forgets the tail: only the first component is cloned", "clone_from of a tuple region whose non-first component keeps state into a destination holding other data"),
 "S54-cip-reserve-regions-replaces-self": ("C10 (round 6)", "ConsecutiveIndexPairs::reserve_regions replaces self by merge_regions(..) when last_index == 0 ('nothing stored yet')", "a region holding ONLY EMPTY items (end offset still 0) that reserves: issued indices are wiped, the next push restarts at 0"),
 "S55-readslice-cmp-shortlex": ("C15 (round 6)", "Ord::cmp for ReadSlice compares lengths first (valid for eq, turns lexicographic into shortlex order)", "items of different lengths that are not prefixes of one another ([2] vs [1,1]) compared through cmp; partial_cmp and == stay right"),
 "S56-slice-heap-size-skips-inner": ("C18 (round 6)", "SliceRegion::heap_size reports `slices` twice and `inner` never (copy-paste slip)", "inner payload larger than one index entry per element; for small elements the double count masks the omission"),
}
results = {}
# later files / lines override earlier ones for the same (seed, check): checks were strengthened between passes
for fn in ("summary.txt", "summary2.txt", "summary3.txt", "summary4.txt", "summary5.txt", "summary6.txt", "summary8.txt"):
    p = os.path.join(V, ".cache", "seedlogs", fn)
    if not os.path.exists(p):
        continue
    for l in open(p):
        m = re.match(r"(S\d\d\S+) (C\d\d) exit=(\d+) (\d+) violation line\(s\):\s*(.*)", l.strip())
        if m:
            d = results.setdefault(m.group(1), {})
            rec = dict(check=m.group(2), exit=int(m.group(3)), violation_lines=int(m.group(4)), first=m.group(5)[:300])
            if m.group(2) in d:
                # remember what the check said when the change was delivered (before it was strengthened)
                rec["exit_at_delivery"] = d[m.group(2)].get("exit_at_delivery", d[m.group(2)]["exit"])
            d[m.group(2)] = rec
results = {k: list(v.values()) for k, v in results.items()}
for name, (prop, change, needs) in SEEDS.items():
    d = os.path.join(V, "seeded", name)
    if not os.path.isdir(d):
        continue
    res = results.get(name, [])
    meta = dict(
        breaks_property=prop, change=change, needs_to_manifest=needs,
        origin=("written by hand while building the C04 program-text scan (no sub-agent)" if name.startswith("S36") else "written by an independent sub-agent that was given only the property text and a scratch worktree of /repo"),
        confirmed=(dict(how="patch applies to /repo HEAD; crate compiles; the existing suite passes (nothing calls the new impl); the generated harness's replay is the demonstration", result="confirmed") if name.startswith("S36") else dict(how="tools/verify_seed.sh in a fresh scratch worktree of /repo HEAD: patch applies; crate compiles; existing suite (64 tests + 11 doctests) passes with the patch; demo.rs fails with the patch and passes without it", result="confirmed")),
        checks_run=[dict(cmd="tools/seedtest.sh %s %s  (git -C /repo apply patch.diff; ./check %s --tier quick; git -C /repo checkout -- .)" % (name, r["check"], r["check"]), exit=r["exit"], violation_lines=r["violation_lines"], first_violations=r["first"], **({"exit_at_delivery": r["exit_at_delivery"]} if r.get("exit_at_delivery", r["exit"]) != r["exit"] else {})) for r in res],
        detected_by=[r["check"] for r in res if r["exit"] == 1],
    )
    json.dump(meta, open(os.path.join(d, "meta.json"), "w"), indent=1)
print("ok", len(results))
