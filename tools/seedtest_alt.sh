#!/bin/bash
# usage: seedtest_alt.sh <seed-dir-name> <PROP> [<PROP>...]
# Like seedtest.sh but leaves /repo alone: the patch is applied to a scratch worktree of /repo HEAD and the checks are
# pointed at it with VERIF_ALT_REPO (development aid; the registered commands always use /repo).
set -u
S=/verif/seeded/$1; N=$1; shift
WT=/tmp/seedalt-$N
git -C /repo worktree remove --force $WT 2>/dev/null
git -C /repo worktree add -q --detach $WT HEAD || exit 9
trap 'git -C /repo worktree remove --force '$WT' 2>/dev/null; rm -rf /verif/.cache/alt-'$(python3 -c "import hashlib;print(hashlib.sha1(b'$WT').hexdigest()[:8])") EXIT
(cd $WT && git apply "$S/patch.diff") || { echo "patch does not apply"; exit 9; }
mkdir -p /verif/.cache/seedlogs
for P in "$@"; do
  L=/verif/.cache/seedlogs/$N-$P.log
  (cd /verif && VERIF_ALT_REPO=$WT ./check $P --tier quick --jobs ${SEED_JOBS:-10} > $L 2>&1); rc=$?
  echo "$N $P exit=$rc $(grep -c '^VIOLATION' $L) violation line(s): $(grep '  violation:' $L | head -3 | cut -c1-160 | tr '\n' ';')"
done
