#!/usr/bin/env python3
"""Prints the markdown table of DESIGN.md §8 from seeded/*/meta.json."""
import json, glob, os
V = os.path.dirname(os.path.dirname(os.path.abspath(__file__)))
print("| seed | breaks | change | needs | checks run (quick tier) → result |")
print("|---|---|---|---|---|")
for d in sorted(glob.glob(os.path.join(V, "seeded", "S*")), key=lambda x: int(os.path.basename(x)[1:].split("-")[0])):
    m = json.load(open(os.path.join(d, "meta.json")))
    def word(r):
        w = {0: "not noticed (exit 0)", 1: "**VIOLATION** (%d replay(s))" % r["violation_lines"], 2: "inconclusive (exit 2)"}.get(r["exit"], str(r["exit"]))
        if "exit_at_delivery" in r:
            w = {0: "not noticed", 1: "VIOLATION", 2: "inconclusive"}.get(r["exit_at_delivery"], "?") + " at delivery, after strengthening " + w
        return w
    runs = "; ".join("%s: %s" % (r["cmd"].split("./check ")[1].split()[0], word(r)) for r in m["checks_run"])
    print("| %s | %s | %s | %s | %s |" % (os.path.basename(d), m["breaks_property"], m["change"], m["needs_to_manifest"], runs))
