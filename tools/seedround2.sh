#!/bin/bash
# second pass: re-run the seeds whose target checks were strengthened, and the round-2 seeds
cd /verif
R=.cache/seedlogs/summary2.txt; : > $R
run() { tools/seedtest.sh "$@" >> $R 2>&1; }
run S05-collapse-clone-from C11
run S16-vec-reserve-vs-capacity C17
run S01-indexlist-push-guard C01 C02
run S18-stride-saturating-mul C05 C19
run S19-pushstorage-swap-when-empty C17 C20
run S20-columns-push-readcolumns-truncates C20 C12 C13 C14
run S21-indexlist-clear-drops-chonk C18 C05
run S22-indexopt-clone-from-stale-spill C09
run S23-slice-reserve-regions-underflow C10 C02
run S24-stride-serde-untagged C16
run S25-indexlist-clear-keeps-smol C05 C08
run S26-indexopt-reserve-allocates C19 C03
echo DONE >> $R
