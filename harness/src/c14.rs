//! C14 — IntoOwned laws hold and items copy faithfully between regions.
use crate::gen::{same_bytes, same_str, Bytes};
use crate::sym;
use flatcontainer::impls::huffman_container::HuffmanContainer;
use flatcontainer::impls::tuple::TupleABRegion;
use flatcontainer::{
    ColumnsRegion, IntoOwned, MirrorRegion, OptionRegion, OwnedRegion, Push, Region, ResultRegion, SliceRegion,
    StringRegion,
};

type SR = SliceRegion<MirrorRegion<u8>>;
type CR = ColumnsRegion<MirrorRegion<u8>>;

/// A target vector of concrete length `n` with symbolic contents (the prior contents of a `clone_onto` target).
fn target(n: usize) -> Vec<u8> {
    let t = Bytes::<5>::any_len(n);
    t.to_vec()
}

fn slice_clone_onto(tlen: usize) {
    let a = Bytes::<3>::any_len(1);
    let b = Bytes::<3>::any_len(2);
    let mut r = SR::default();
    let _ = r.push(a.as_slice());
    let ib = r.push(b.as_slice());
    let x = r.index(ib);
    let mut t = target(tlen);
    x.clone_onto(&mut t);
    assert!(t.len() == 2, "C14: clone_onto leaves a target of the wrong length");
    assert!(same_bytes(&t, b.as_slice()), "C14: clone_onto leaves a target that differs from into_owned");
    cover!(true, "end reached");
    sym::forget(r);
    sym::forget(t);
}

// @h prop=C14 tier=quick kind=proof inst="ReadSlice<MirrorRegion<u8>> region-backed" bounds="item of 2 symbolic bytes (after a 1-byte neighbour); target empty" desc="clone_onto(x, t) leaves t == into_owned(x): empty target"
#[cfg_attr(kani, kani::proof, kani::unwind(7))]
pub fn c14_slice_clone_onto_empty() {
    slice_clone_onto(0);
}

// @h prop=C14 tier=quick kind=proof inst="ReadSlice<MirrorRegion<u8>> region-backed" bounds="item of 2 symbolic bytes; target of 1 symbolic byte (shorter)" desc="clone_onto: shorter target is overwritten and extended"
#[cfg_attr(kani, kani::proof, kani::unwind(7))]
pub fn c14_slice_clone_onto_shorter() {
    slice_clone_onto(1);
}

// @h prop=C14 tier=quick kind=proof inst="ReadSlice<MirrorRegion<u8>> region-backed" bounds="item of 2 symbolic bytes; target of 4 symbolic bytes (longer)" desc="clone_onto: longer target is overwritten and truncated"
#[cfg_attr(kani, kani::proof, kani::unwind(7))]
pub fn c14_slice_clone_onto_longer() {
    slice_clone_onto(4);
}

// @h prop=C14 tier=quick kind=proof inst="ReadSlice<MirrorRegion<u8>> owned-borrowed" bounds="borrowed item of 3 symbolic bytes; target of 1 resp. 5 symbolic bytes" desc="clone_onto from the borrowed representation"
#[cfg_attr(kani, kani::proof, kani::unwind(7))]
pub fn c14_slice_borrowed_clone_onto() {
    let b = Bytes::<3>::any_len(3);
    let v = b.to_vec();
    let x = <SR as Region>::ReadItem::borrow_as(&v);
    let mut t = target(1);
    x.clone_onto(&mut t);
    assert!(t.len() == 3 && same_bytes(&t, b.as_slice()), "C14: clone_onto (borrowed, shorter target) differs");
    let mut t2 = target(5);
    x.clone_onto(&mut t2);
    assert!(t2.len() == 3 && same_bytes(&t2, b.as_slice()), "C14: clone_onto (borrowed, longer target) differs");
    cover!(true, "end reached");
    sym::forget((t, t2));
}

// @h prop=C14 tier=quick kind=proof inst="ReadSlice<MirrorRegion<u8>>" bounds="item of <=3 symbolic bytes, symbolic length" desc="borrow_as(&into_owned(x)) == x (PartialEq) and iterates equally; reborrow(x) == x"
#[cfg_attr(kani, kani::proof, kani::unwind(7))]
pub fn c14_slice_borrow_roundtrip() {
    let a = Bytes::<3>::any_len(1);
    let b = Bytes::<3>::any_symlen();
    let mut r = SR::default();
    let _ = r.push(a.as_slice());
    let ib = r.push(b.as_slice());
    let x = r.index(ib);
    let owned: Vec<u8> = x.into_owned();
    let y = <SR as Region>::ReadItem::borrow_as(&owned);
    assert!(y.len() == x.len(), "C14: borrow_as(&into_owned(x)) has a different length");
    assert!(y == x, "C14: borrow_as(&into_owned(x)) != x");
    let z = <SR as Region>::reborrow(x);
    assert!(z == x && z.len() == b.len, "C14: reborrow(x) is not x");
    cover!(b.len == 3, "full length");
    sym::forget(r);
    sym::forget(owned);
}

// @h memw=4 prop=C14 tier=quick kind=proof inst="SliceRegion<MirrorRegion<u8>> -> SliceRegion<MirrorRegion<u8>>" bounds="item of <=3 symbolic bytes pushed as read item (region-backed) and as borrow_as(&owned) into a second, non-empty region" desc="region-to-region push yields an item equal to x, from both representations"
#[cfg_attr(kani, kani::proof, kani::unwind(7))]
pub fn c14_slice_region_to_region() {
    let a = Bytes::<3>::any_len(1);
    let b = Bytes::<3>::any_symlen();
    let mut r = SR::default();
    let _ = r.push(a.as_slice());
    let ib = r.push(b.as_slice());
    let x = r.index(ib);
    let mut r2 = SR::default();
    let _ = r2.push(a.as_slice());
    let i2 = r2.push(x);
    assert!(r2.index(i2) == x, "C14: pushing a read item into another region yields a different item");
    let owned: Vec<u8> = x.into_owned();
    let i3 = r2.push(<SR as Region>::ReadItem::borrow_as(&owned));
    assert!(r2.index(i3) == x && r2.index(i3).len() == b.len, "C14: pushing borrow_as(&owned) yields a different item");
    cover!(b.len == 2, "two elements");
    sym::forget((r, r2, owned));
}

fn columns_clone_onto(tlen: usize) {
    let a = Bytes::<3>::any_len(3);
    let b = Bytes::<3>::any_len(2);
    let mut r = CR::default();
    let _ = r.push(a.as_slice());
    let ib = r.push(b.as_slice());
    let x = r.index(ib);
    let mut t = target(tlen);
    x.clone_onto(&mut t);
    assert!(t.len() == 2 && same_bytes(&t, b.as_slice()), "C14: columns clone_onto leaves a target that differs from into_owned");
    cover!(true, "end reached");
    sym::forget((r, t));
}

// @h prop=C14 tier=quick kind=proof inst="ReadColumns<MirrorRegion<u8>>" bounds="row of 2 symbolic cells after a 3-cell row; empty target" desc="clone_onto(x, t) leaves t == into_owned(x)"
#[cfg_attr(kani, kani::proof, kani::unwind(7))]
pub fn c14_columns_clone_onto_empty() {
    columns_clone_onto(0);
}

// @h memw=6 prop=C14 tier=quick kind=proof inst="ReadColumns<MirrorRegion<u8>>" bounds="row of 2 symbolic cells; target of 1 symbolic byte" desc="clone_onto: shorter target"
#[cfg_attr(kani, kani::proof, kani::unwind(7))]
pub fn c14_columns_clone_onto_shorter() {
    columns_clone_onto(1);
}

// @h memw=5 prop=C14 tier=quick kind=proof inst="ReadColumns<MirrorRegion<u8>>" bounds="row of 2 symbolic cells; target of 4 symbolic bytes" desc="clone_onto: longer target"
#[cfg_attr(kani, kani::proof, kani::unwind(7))]
pub fn c14_columns_clone_onto_longer() {
    columns_clone_onto(4);
}

// @h prop=C14 tier=quick kind=proof inst="ReadColumns<MirrorRegion<u8>>" bounds="row of 2 symbolic cells after a 3-cell row" desc="borrow_as(&owned) of the equal owned row reads and iterates like the region-backed x"
#[cfg_attr(kani, kani::proof, kani::unwind(7))]
pub fn c14_columns_borrow_roundtrip() {
    let a = Bytes::<3>::any_len(3);
    let b = Bytes::<3>::any_len(2);
    let mut r = CR::default();
    let _ = r.push(a.as_slice());
    let ib = r.push(b.as_slice());
    let x = r.index(ib);
    // (into_owned of a columns row exhausts memory; the owned form is taken from the model and compared through borrow_as)
    let owned: Vec<u8> = b.to_vec();
    let y = <CR as Region>::ReadItem::borrow_as(&owned);
    assert!(y.len() == 2 && y.get(0) == x.get(0) && y.get(1) == x.get(1), "C14: borrow_as(&owned) reads differently");
    assert!(y.iter().eq(x.iter()), "C14: borrow_as(&owned) iterates differently");
    cover!(true, "end reached");
    sym::forget((r, owned));
}

// @h prop=C14 tier=quick kind=proof inst="ColumnsRegion<MirrorRegion<u8>> -> ColumnsRegion<MirrorRegion<u8>>" bounds="row of 2 symbolic cells pushed as a region-backed read item into a second region holding a 1-cell row" desc="region-to-region push of a row yields an equal row"
#[cfg_attr(kani, kani::proof, kani::unwind(7))]
pub fn c14_columns_region_to_region() {
    let a = Bytes::<3>::any_len(1);
    let b = Bytes::<3>::any_len(2);
    let mut r = CR::default();
    let ib = r.push(b.as_slice());
    let x = r.index(ib);
    let mut r2 = CR::default();
    let _ = r2.push(a.as_slice());
    let i2 = r2.push(x);
    let y = r2.index(i2);
    assert!(y.len() == 2 && y.get(0) == b.buf[0] && y.get(1) == b.buf[1], "C14: row pushed from a read item differs");
    cover!(true, "end reached");
    sym::forget((r, r2));
}

// @h prop=C14 tier=quick kind=proof inst="ColumnsRegion<MirrorRegion<u8>> <- borrow_as(&owned row)" bounds="owned row of 2 symbolic cells pushed through its borrowed representation into a region holding a 1-cell row" desc="pushing a borrow of the owned form yields an equal row"
#[cfg_attr(kani, kani::proof, kani::unwind(7))]
pub fn c14_columns_push_borrowed() {
    let a = Bytes::<3>::any_len(1);
    let b = Bytes::<3>::any_len(2);
    let owned: Vec<u8> = b.to_vec();
    let mut r2 = CR::default();
    let _ = r2.push(a.as_slice());
    let i3 = r2.push(<CR as Region>::ReadItem::borrow_as(&owned));
    let z = r2.index(i3);
    assert!(z.len() == 2 && z.get(0) == b.buf[0] && z.get(1) == b.buf[1], "C14: row pushed from borrow_as(&owned) differs");
    cover!(true, "end reached");
    sym::forget((r2, owned));
}

// @h prop=C14 tier=quick kind=proof inst="&[u8] (OwnedRegion<u8>) and &str (StringRegion)" bounds="item of 2 symbolic bytes, string of shape [2-byte,3-byte]; targets: longer and empty" desc="into_owned, clone_onto, borrow_as, reborrow, region-to-region push for the reference read items"
#[cfg_attr(kani, kani::proof, kani::unwind(8))]
pub fn c14_ref_items() {
    let b = Bytes::<3>::any_len(2);
    let mut r = OwnedRegion::<u8>::default();
    let _ = r.push(Bytes::<3>::any_len(1).as_slice());
    let ib = r.push(b.as_slice());
    let x: &[u8] = r.index(ib);
    let mut t = target(4);
    x.clone_onto(&mut t);
    assert!(t.len() == 2 && same_bytes(&t, b.as_slice()), "C14: &[u8] clone_onto differs");
    let y: &[u8] = <&[u8] as IntoOwned>::borrow_as(&t);
    assert!(y == x, "C14: &[u8] borrow_as(&owned) != x");
    let mut r2 = OwnedRegion::<u8>::default();
    let i2 = r2.push(x);
    assert!(r2.index(i2) == x, "C14: &[u8] region-to-region push differs");
    let s = crate::gen::string_shaped(&[2, 3]);
    let mut sr = <StringRegion>::default();
    let _ = sr.push("x");
    let is = sr.push(s.as_str());
    let xs: &str = sr.index(is);
    let mut ts = String::new();
    xs.clone_onto(&mut ts);
    assert!(same_str(&ts, &s), "C14: &str clone_onto (empty target) differs");
    let mut ts2 = crate::gen::string_shaped(&[4, 4]);
    xs.clone_onto(&mut ts2);
    assert!(same_str(&ts2, &s), "C14: &str clone_onto (longer target) differs");
    let mut sr2 = <StringRegion>::default();
    let j = sr2.push(xs);
    assert!(same_str(sr2.index(j), &s), "C14: &str region-to-region push differs");
    assert!(same_str(<StringRegion as Region>::reborrow(xs), &s), "C14: &str reborrow differs");
    cover!(true, "end reached");
    sym::forget((r, r2, sr, sr2, t, ts, ts2));
}

// @h prop=C14 tier=quick kind=proof inst="Option<&str> / Result<&str,u8> / (&str,u16) read items" bounds="strings of concrete shapes with symbolic contents; clone_onto targets of the other variant and of the same variant with longer contents" desc="clone_onto across variants, into_owned, borrow_as, region-to-region push"
#[cfg_attr(kani, kani::proof, kani::unwind(8))]
pub fn c14_variants() {
    // Option
    let s = crate::gen::string_shaped(&[2]);
    let mut o = OptionRegion::<StringRegion>::default();
    let io = o.push(Some(s.as_str()));
    let inone = o.push(None::<&str>);
    let x = o.index(io);
    let n = o.index(inone);
    let mut t: Option<String> = None;
    x.clone_onto(&mut t);
    assert!(t.is_some() && same_str(t.as_ref().unwrap(), &s), "C14: Option clone_onto(Some -> None target) differs");
    let mut t2: Option<String> = Some(crate::gen::string_shaped(&[3, 1]));
    x.clone_onto(&mut t2);
    assert!(t2.is_some() && same_str(t2.as_ref().unwrap(), &s), "C14: Option clone_onto(Some -> Some target) differs");
    n.clone_onto(&mut t2);
    assert!(t2.is_none(), "C14: Option clone_onto(None -> Some target) differs");
    let mut o2 = OptionRegion::<StringRegion>::default();
    let j = o2.push(x);
    assert!(o2.index(j).map(|y| same_str(y, &s)) == Some(true), "C14: Option region-to-region push differs");
    let y = <Option<&str> as IntoOwned>::borrow_as(&t);
    assert!(y.map(|y| same_str(y, &s)) == Some(true), "C14: Option borrow_as(&owned) differs");
    // Result
    let e = sym::u8();
    let mut rr = ResultRegion::<StringRegion, MirrorRegion<u8>>::default();
    let iok = rr.push(Ok::<&str, u8>(s.as_str()));
    let ierr = rr.push(Err::<&str, u8>(e));
    let mut tr: Result<String, u8> = Err(sym::u8());
    rr.index(iok).clone_onto(&mut tr);
    assert!(tr.as_ref().map(|y| same_str(y, &s)) == Ok(true), "C14: Result clone_onto(Ok -> Err target) differs");
    rr.index(ierr).clone_onto(&mut tr);
    assert!(tr == Err(e), "C14: Result clone_onto(Err -> Ok target) differs");
    let mut rr2 = ResultRegion::<StringRegion, MirrorRegion<u8>>::default();
    let k = rr2.push(rr.index(ierr));
    assert!(rr2.index(k) == Err(e), "C14: Result region-to-region push differs");
    // tuple
    let u = sym::u16();
    let mut tp = TupleABRegion::<StringRegion, MirrorRegion<u16>>::default();
    let it = tp.push((s.as_str(), u));
    let mut tt: (String, u16) = (crate::gen::string_shaped(&[1]), sym::u16());
    tp.index(it).clone_onto(&mut tt);
    assert!(same_str(&tt.0, &s) && tt.1 == u, "C14: tuple clone_onto differs");
    let (p, q) = <(&str, u16) as IntoOwned>::borrow_as(&tt);
    assert!(same_str(p, &s) && q == u, "C14: tuple borrow_as(&owned) differs");
    cover!(true, "end reached");
    sym::forget((o, o2, rr, rr2, tp, t, t2, tr, tt));
}

// @h prop=C14 tier=quick kind=proof inst="Wrapped<u8> raw (borrow_as of an owned vector; no container, no B-tree)" bounds="3 symbolic symbols; clone_onto targets of 1 and 5 symbolic bytes" desc="into_owned, clone_onto, borrow_as round trip for raw Huffman items"
#[cfg_attr(kani, kani::proof, kani::unwind(8))]
pub fn c14_wrapped_raw() {
    let b = Bytes::<3>::any_len(3);
    let v = b.to_vec();
    let x = <HuffmanContainer<u8> as Region>::ReadItem::borrow_as(&v);
    let o: Vec<u8> = x.into_owned();
    assert!(o.len() == 3 && same_bytes(&o, b.as_slice()), "C14: Wrapped into_owned differs");
    let mut t = target(1);
    x.clone_onto(&mut t);
    assert!(t.len() == 3 && same_bytes(&t, b.as_slice()), "C14: Wrapped clone_onto (shorter target) differs");
    let mut t5 = target(5);
    x.clone_onto(&mut t5);
    assert!(t5.len() == 3 && same_bytes(&t5, b.as_slice()), "C14: Wrapped clone_onto (longer target) differs");
    let y = <HuffmanContainer<u8> as Region>::ReadItem::borrow_as(&o);
    assert!(y == x, "C14: Wrapped borrow_as(&into_owned(x)) != x");
    cover!(true, "end reached");
    sym::forget((o, t, t5));
}

/// An encoded item of two 2-bit code words over 4 symbolic symbols (bits 0..4 of one symbolic byte).
fn wrapped_encoded(tlen: Option<usize>) {
    use flatcontainer::impls::huffman_container::verif_hooks::Code;
    // (symbolic symbols in the table exhaust memory; the code words of the item are what is symbolic)
    let syms = [10u8, 11, 12, 13];
    let code = Code::<u8>::uniform_table(2, &syms);
    let bytes = sym::bytes::<1>();
    let x = code.read(&bytes, (0, 4));
    let e0 = syms[((bytes[0] >> 6) & 3) as usize];
    let e1 = syms[((bytes[0] >> 4) & 3) as usize];
    match tlen {
        None => {
            let o: Vec<u8> = x.into_owned();
            assert!(o.len() == 2 && o[0] == e0 && o[1] == e1, "C14: into_owned of an encoded item yields wrong symbols");
            sym::forget(o);
        }
        Some(n) => {
            let mut t = target(n);
            x.clone_onto(&mut t);
            assert!(t.len() == 2 && t[0] == e0 && t[1] == e1, "C14: clone_onto of an encoded item differs from into_owned");
            sym::forget(t);
        }
    }
    cover!(true, "end reached");
    sym::forget(code);
}

// @h memw=9 prop=C14 tier=quick kind=proof timeout=900 unwindset="from_fn|drop_glue|drop_in_place:258" inst="Wrapped<u8> Huffman-ENCODED item (uniform 2-bit code over the symbols 10..13, table via hook; no B-tree)" bounds="item = 2 code words (4 bits of a symbolic byte)" desc="into_owned decodes exactly the symbols"
#[cfg_attr(kani, kani::proof, kani::unwind(8))]
pub fn c14_wrapped_encoded_owned() {
    wrapped_encoded(None);
}

// @h memw=8 prop=C14 tier=quick kind=proof timeout=900 unwindset="from_fn|drop_glue|drop_in_place:258" inst="Wrapped<u8> Huffman-ENCODED item" bounds="item = 2 code words; clone_onto target of 1 symbolic byte (shorter)" desc="clone_onto leaves the target equal to into_owned"
#[cfg_attr(kani, kani::proof, kani::unwind(8))]
pub fn c14_wrapped_encoded_clone_onto_shorter() {
    wrapped_encoded(Some(1));
}

// @h memw=8 prop=C14 tier=quick kind=proof timeout=900 unwindset="from_fn|drop_glue|drop_in_place:258" inst="Wrapped<u8> Huffman-ENCODED item" bounds="item = 2 code words; clone_onto target of 4 symbolic bytes (longer)" desc="clone_onto leaves the target equal to into_owned whatever it held before"
#[cfg_attr(kani, kani::proof, kani::unwind(8))]
pub fn c14_wrapped_encoded_clone_onto_longer() {
    wrapped_encoded(Some(4));
}

// @h prop=C14 tier=quick kind=proof inst="ReadSlice<MirrorRegion<u8>>: an EMPTY item (region-backed, between neighbours; and owned-borrowed) cloned onto a NON-EMPTY target" bounds="region holds items of 1, 0, 2 symbolic bytes; targets of 2 and 1 symbolic bytes" desc="clone_onto(x, t) leaves t == into_owned(x) == the empty vector, whatever t held before"
#[cfg_attr(kani, kani::proof, kani::unwind(7))]
pub fn c14_slice_clone_onto_from_empty_item() {
    let a = Bytes::<3>::any_len(1);
    let e = Bytes::<3>::any_len(0);
    let b = Bytes::<3>::any_len(2);
    let mut r = SR::default();
    let _ = r.push(a.as_slice());
    let ie = r.push(e.as_slice());
    let _ = r.push(b.as_slice());
    let x = r.index(ie);
    let mut t = target(2);
    x.clone_onto(&mut t);
    assert!(t.is_empty(), "C14: clone_onto of an empty item leaves the target's previous contents in place");
    let empty: Vec<u8> = Vec::new();
    let y = <SR as Region>::ReadItem::borrow_as(&empty);
    let mut t2 = target(1);
    y.clone_onto(&mut t2);
    assert!(t2.is_empty(), "C14: clone_onto of an empty borrowed item leaves the target's previous contents in place");
    assert!(x.into_owned().is_empty(), "C14: into_owned of an empty item is not empty");
    cover!(true, "end reached");
    sym::forget(r);
    sym::forget((t, t2));
}

// @h prop=C14 tier=quick kind=proof inst="ReadColumns<MirrorRegion<u8>>, &[u8] (OwnedRegion<u8>), &str (StringRegion): an EMPTY item cloned onto a NON-EMPTY target" bounds="each region holds a non-empty item, the empty item, a non-empty item; targets of 2 symbolic bytes / a 2-byte string" desc="clone_onto(x, t) leaves t empty"
#[cfg_attr(kani, kani::proof, kani::unwind(7))]
pub fn c14_clone_onto_from_empty_item_other_regions() {
    let a = Bytes::<3>::any_len(2);
    let mut c = CR::default();
    let _ = c.push(a.as_slice());
    let ie = c.push([0u8; 0].as_slice());
    let _ = c.push(a.as_slice());
    let mut t = target(2);
    c.index(ie).clone_onto(&mut t);
    assert!(t.is_empty(), "C14: clone_onto of an empty row leaves the target's previous contents in place");
    let mut o = OwnedRegion::<u8>::default();
    let _ = o.push(a.as_slice());
    let ie = o.push([0u8; 0].as_slice());
    let mut t2 = target(2);
    o.index(ie).clone_onto(&mut t2);
    assert!(t2.is_empty(), "C14: clone_onto of an empty slice leaves the target's previous contents in place");
    let mut s = <StringRegion>::default();
    let _ = s.push("ab");
    let ie = s.push("");
    let mut t3 = String::from("xy");
    s.index(ie).clone_onto(&mut t3);
    assert!(t3.is_empty(), "C14: clone_onto of an empty string leaves the target's previous contents in place");
    cover!(true, "end reached");
    sym::forget((c, o, s));
    sym::forget((t, t2, t3));
}
