//! Counting the allocator calls (C17 only).
//!
//! Under Kani the two entry points through which `Vec` reaches the allocator in this toolchain — `std::alloc::alloc`
//! and the private `alloc::alloc::realloc_nonnull` — are replaced (`#[kani::stub]`, `-Z stubbing`) by wrappers that
//! count and then perform the allocation through the system allocator (`libc::malloc`/`realloc`, which CBMC models).
//! Natively the replay binary installs a counting `#[global_allocator]` that bumps `NATIVE_CALLS`.
//! The counter starts from a magic bit pattern (see the note in sym.rs about Kani merging zero-initialised statics).
use core::alloc::Layout;

const BASE: u64 = 0x5eed_5afe_a110_c000;

#[cfg(kani)]
static mut CALLS: u64 = BASE;

#[cfg(not(kani))]
pub static NATIVE_CALLS: core::sync::atomic::AtomicU64 = core::sync::atomic::AtomicU64::new(0);

/// Number of allocator calls (alloc + realloc) so far.
pub fn calls() -> u64 {
    #[cfg(kani)]
    unsafe {
        CALLS - BASE
    }
    #[cfg(not(kani))]
    {
        NATIVE_CALLS.load(core::sync::atomic::Ordering::SeqCst)
    }
}

#[cfg(kani)]
pub unsafe fn counting_alloc(layout: Layout) -> *mut u8 {
    CALLS += 1;
    std::alloc::GlobalAlloc::alloc(&std::alloc::System, layout)
}

#[cfg(kani)]
pub unsafe fn counting_realloc(ptr: core::ptr::NonNull<u8>, layout: Layout, new_size: usize) -> *mut u8 {
    CALLS += 1;
    std::alloc::GlobalAlloc::realloc(&std::alloc::System, ptr.as_ptr(), layout, new_size)
}
