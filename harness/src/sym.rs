//! Symbolic inputs.
//!
//! Under Kani every call below is one fresh solver variable (`kani::any`).  Natively (`cfg(not(kani))`) the very
//! same harness bodies are *replayed*: every call consumes the next byte vector recorded by Kani's
//! `--concrete-playback=print` for the counterexample, in call order.  Only primitive draws are used so that one
//! draw == one recorded vector (this is how Kani's own playback library numbers them as well).
#![allow(dead_code)]

#[cfg(not(kani))]
pub mod replay {
    use std::cell::RefCell;
    use std::collections::VecDeque;

    thread_local! {
        static VALS: RefCell<VecDeque<Vec<u8>>> = RefCell::new(VecDeque::new());
        static EXHAUSTED: RefCell<usize> = RefCell::new(0);
        static DRAWS: RefCell<usize> = RefCell::new(0);
    }

    /// Load the recorded vectors.
    pub fn load(v: Vec<Vec<u8>>) {
        VALS.with(|c| *c.borrow_mut() = v.into());
        EXHAUSTED.with(|c| *c.borrow_mut() = 0);
        DRAWS.with(|c| *c.borrow_mut() = 0);
    }

    /// Number of draws that found no recorded vector (they return zero bytes).
    pub fn exhausted() -> usize {
        EXHAUSTED.with(|c| *c.borrow())
    }
    /// Number of draws made.
    pub fn draws() -> usize {
        DRAWS.with(|c| *c.borrow())
    }
    /// Number of vectors left.
    pub fn remaining() -> usize {
        VALS.with(|c| c.borrow().len())
    }

    pub fn next<const N: usize>() -> [u8; N] {
        DRAWS.with(|c| *c.borrow_mut() += 1);
        let v = VALS.with(|c| c.borrow_mut().pop_front());
        let mut out = [0u8; N];
        match v {
            Some(v) => {
                // Kani records exactly size_of::<T>() bytes, little endian.
                for (o, b) in out.iter_mut().zip(v.iter()) {
                    *o = *b;
                }
            }
            None => EXHAUSTED.with(|c| *c.borrow_mut() += 1),
        }
        out
    }
}

macro_rules! prim {
    ($name:ident, $t:ty, $n:expr) => {
        #[inline(always)]
        pub fn $name() -> $t {
            #[cfg(kani)]
            {
                kani::any::<$t>()
            }
            #[cfg(not(kani))]
            {
                <$t>::from_le_bytes(replay::next::<$n>())
            }
        }
    };
}

prim!(u8, u8, 1);
prim!(u16, u16, 2);
prim!(u32, u32, 4);
prim!(u64, u64, 8);
prim!(u128, u128, 16);
prim!(usize, usize, 8);
prim!(i64, i64, 8);
prim!(i128, i128, 16);

/// A symbolic boolean (one recorded byte, as Kani's `bool::any`).
#[inline(always)]
pub fn bool() -> bool {
    #[cfg(kani)]
    {
        kani::any::<bool>()
    }
    #[cfg(not(kani))]
    {
        replay::next::<1>()[0] & 1 == 1
    }
}

/// A symbolic Unicode scalar value (one recorded u32, as Kani's `char::any`).
#[inline(always)]
pub fn char() -> char {
    #[cfg(kani)]
    {
        kani::any::<char>()
    }
    #[cfg(not(kani))]
    {
        let c = u32::from_le_bytes(replay::next::<4>());
        match core::char::from_u32(c) {
            Some(c) => c,
            None => panic!("REPLAY-ASSUME-VIOLATED: recorded char is not a scalar value"),
        }
    }
}

/// `[u8; N]` of independent symbolic bytes (N recorded vectors).
#[inline(always)]
pub fn bytes<const N: usize>() -> [u8; N] {
    #[cfg(kani)]
    {
        kani::any::<[u8; N]>()
    }
    #[cfg(not(kani))]
    {
        let mut out = [0u8; N];
        for o in out.iter_mut() {
            *o = replay::next::<1>()[0];
        }
        out
    }
}

/// `[usize; N]` of independent symbolic words.
#[inline(always)]
pub fn words<const N: usize>() -> [usize; N] {
    #[cfg(kani)]
    {
        kani::any::<[usize; N]>()
    }
    #[cfg(not(kani))]
    {
        let mut out = [0usize; N];
        for o in out.iter_mut() {
            *o = usize::from_le_bytes(replay::next::<8>());
        }
        out
    }
}

/// A symbolic f64 drawn by bit pattern (NaN payloads included).
#[inline(always)]
pub fn f64_bits() -> f64 {
    f64::from_bits(u64())
}

/// Symbolic value in `0..=max`.
#[inline(always)]
pub fn upto(max: usize) -> usize {
    let v = usize();
    assume(v <= max);
    v
}

/// Symbolic value in `0..=max` (max <= 8), *case-split into constants*: under the path-wise engine every path then carries a
/// concrete length, so loops, copies and allocation sizes downstream are concrete on that path.
#[inline(never)]
pub fn small(max: usize) -> usize {
    let v = usize();
    assume(v <= max);
    match v {
        0 => 0,
        1 => 1,
        2 => 2,
        3 => 3,
        4 => 4,
        5 => 5,
        6 => 6,
        7 => 7,
        _ => 8,
    }
}

/// Symbolic byte in `0..=max`.
#[inline(always)]
pub fn u8_upto(max: u8) -> u8 {
    let v = u8();
    assume(v <= max);
    v
}

/// Constrain the inputs. Natively a violated assumption means the recorded vectors do not describe an admissible
/// input: the replay is void (never a violation).
#[inline(always)]
pub fn assume(c: bool) {
    #[cfg(kani)]
    kani::assume(c);
    #[cfg(not(kani))]
    if !c {
        panic!("REPLAY-ASSUME-VIOLATED");
    }
}

/// Reachability witness: under Kani a `cover!`; natively nothing.
#[macro_export]
macro_rules! cover {
    ($c:expr, $m:literal) => {{
        #[cfg(kani)]
        kani::cover!($c, $m);
        #[cfg(not(kani))]
        {
            let _ = $c;
        }
    }};
}

/// Forget a value (drop glue is not the subject and is costly to unroll).
#[inline(always)]
pub fn forget<T>(t: T) {
    core::mem::forget(t)
}

// ---------------------------------------------------------------------------------------------------------------
// Concrete shapes, symbolic contents.  Symbolic *lengths* of strings (1-4 byte scalars) make every copy and offset
// downstream symbolic and were measured to exhaust memory; instead every generated string / row takes the next
// shape of a fixed rotation (a plain counter, concrete during symbolic execution) and only its contents are solver
// variables.  The rotation and its start (`set_shape`) are part of each harness's stated bound.
// ---------------------------------------------------------------------------------------------------------------
// NOTE (Kani 0.68 codegen): a `static mut` whose *initial bytes* equal those of some promoted constant (e.g.
// `static mut N: usize = 0` vs. the `Cap::ZERO` constant read by `RawVec::new`) is merged with that constant; after
// the first write every `Vec::new()` then starts with a bogus capacity.  The mutable state below therefore starts
// from magic bit patterns that no constant in std shares, and the logical value is the offset from the magic.
const SHAPE_BASE: u64 = 0x5eed_5afe_c0de_0000;
const SYMLEN_OFF: u64 = 0x5eed_5afe_b001_0000;
static mut SHAPE_RAW: u64 = SHAPE_BASE;
static mut SYMLEN_RAW: u64 = SYMLEN_OFF;

/// Start the shape rotation at `k`.
pub fn set_shape(k: usize) {
    unsafe { SHAPE_RAW = SHAPE_BASE + k as u64 }
}

/// Next shape number.
pub fn next_shape() -> usize {
    unsafe {
        let s = SHAPE_RAW;
        SHAPE_RAW = s + 1;
        (s - SHAPE_BASE) as usize
    }
}

/// Byte-slice generators draw their *length* symbolically (true) or from the concrete rotation (false, default).
/// Symbolic lengths are affordable for two-item round trips only; longer histories use concrete shapes.
pub fn set_symbolic_len(on: bool) {
    unsafe { SYMLEN_RAW = if on { SYMLEN_OFF + 1 } else { SYMLEN_OFF } }
}

/// See `set_symbolic_len`.
pub fn symbolic_len() -> bool {
    unsafe { SYMLEN_RAW != SYMLEN_OFF }
}
