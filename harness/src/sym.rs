//! Symbolic inputs.
//!
//! Under Kani every call below is one fresh solver variable (`kani::any`).  Natively (`cfg(not(kani))`) the very
//! same harness bodies are *replayed*: every call consumes the next byte vector recorded by Kani's
//! `--concrete-playback=print` for the counterexample, in call order.  Only primitive draws are used so that one
//! draw == one recorded vector (this is how Kani's own playback library numbers them as well).
#![allow(dead_code)]

#[cfg(not(kani))]
pub mod replay {
    use std::cell::RefCell;
    use std::collections::VecDeque;

    thread_local! {
        static VALS: RefCell<VecDeque<Vec<u8>>> = RefCell::new(VecDeque::new());
        static EXHAUSTED: RefCell<usize> = RefCell::new(0);
        static DRAWS: RefCell<usize> = RefCell::new(0);
    }

    /// Load the recorded vectors.
    pub fn load(v: Vec<Vec<u8>>) {
        VALS.with(|c| *c.borrow_mut() = v.into());
        EXHAUSTED.with(|c| *c.borrow_mut() = 0);
        DRAWS.with(|c| *c.borrow_mut() = 0);
    }

    /// Number of draws that found no recorded vector (they return zero bytes).
    pub fn exhausted() -> usize {
        EXHAUSTED.with(|c| *c.borrow())
    }
    /// Number of draws made.
    pub fn draws() -> usize {
        DRAWS.with(|c| *c.borrow())
    }
    /// Number of vectors left.
    pub fn remaining() -> usize {
        VALS.with(|c| c.borrow().len())
    }

    pub fn next<const N: usize>() -> [u8; N] {
        DRAWS.with(|c| *c.borrow_mut() += 1);
        let v = VALS.with(|c| c.borrow_mut().pop_front());
        let mut out = [0u8; N];
        match v {
            Some(v) => {
                // Kani records exactly size_of::<T>() bytes, little endian.
                for (o, b) in out.iter_mut().zip(v.iter()) {
                    *o = *b;
                }
            }
            None => EXHAUSTED.with(|c| *c.borrow_mut() += 1),
        }
        out
    }
}

macro_rules! prim {
    ($name:ident, $t:ty, $n:expr) => {
        #[inline(always)]
        pub fn $name() -> $t {
            #[cfg(kani)]
            {
                kani::any::<$t>()
            }
            #[cfg(not(kani))]
            {
                <$t>::from_le_bytes(replay::next::<$n>())
            }
        }
    };
}

prim!(u8, u8, 1);
prim!(u16, u16, 2);
prim!(u32, u32, 4);
prim!(u64, u64, 8);
prim!(u128, u128, 16);
prim!(usize, usize, 8);
prim!(i64, i64, 8);
prim!(i128, i128, 16);

/// A symbolic boolean (one recorded byte, as Kani's `bool::any`).
#[inline(always)]
pub fn bool() -> bool {
    #[cfg(kani)]
    {
        kani::any::<bool>()
    }
    #[cfg(not(kani))]
    {
        replay::next::<1>()[0] & 1 == 1
    }
}

/// A symbolic Unicode scalar value (one recorded u32, as Kani's `char::any`).
#[inline(always)]
pub fn char() -> char {
    #[cfg(kani)]
    {
        kani::any::<char>()
    }
    #[cfg(not(kani))]
    {
        let c = u32::from_le_bytes(replay::next::<4>());
        match core::char::from_u32(c) {
            Some(c) => c,
            None => panic!("REPLAY-ASSUME-VIOLATED: recorded char is not a scalar value"),
        }
    }
}

/// `[u8; N]` of independent symbolic bytes (N recorded vectors).
#[inline(always)]
pub fn bytes<const N: usize>() -> [u8; N] {
    #[cfg(kani)]
    {
        kani::any::<[u8; N]>()
    }
    #[cfg(not(kani))]
    {
        let mut out = [0u8; N];
        for o in out.iter_mut() {
            *o = replay::next::<1>()[0];
        }
        out
    }
}

/// `[usize; N]` of independent symbolic words.
#[inline(always)]
pub fn words<const N: usize>() -> [usize; N] {
    #[cfg(kani)]
    {
        kani::any::<[usize; N]>()
    }
    #[cfg(not(kani))]
    {
        let mut out = [0usize; N];
        for o in out.iter_mut() {
            *o = usize::from_le_bytes(replay::next::<8>());
        }
        out
    }
}

/// A symbolic f64 drawn by bit pattern (NaN payloads included).
#[inline(always)]
pub fn f64_bits() -> f64 {
    f64::from_bits(u64())
}

/// Symbolic value in `0..=max`.
#[inline(always)]
pub fn upto(max: usize) -> usize {
    let v = usize();
    assume(v <= max);
    v
}

/// Symbolic byte in `0..=max`.
#[inline(always)]
pub fn u8_upto(max: u8) -> u8 {
    let v = u8();
    assume(v <= max);
    v
}

/// Constrain the inputs. Natively a violated assumption means the recorded vectors do not describe an admissible
/// input: the replay is void (never a violation).
#[inline(always)]
pub fn assume(c: bool) {
    #[cfg(kani)]
    kani::assume(c);
    #[cfg(not(kani))]
    if !c {
        panic!("REPLAY-ASSUME-VIOLATED");
    }
}

/// Reachability witness: under Kani a `cover!`; natively nothing.
#[macro_export]
macro_rules! cover {
    ($c:expr, $m:literal) => {{
        #[cfg(kani)]
        kani::cover!($c, $m);
        #[cfg(not(kani))]
        {
            let _ = $c;
        }
    }};
}

/// Forget a value (drop glue is not the subject and is costly to unroll).
#[inline(always)]
pub fn forget<T>(t: T) {
    core::mem::forget(t)
}
