//! C13 — read-item accessors expose exactly their own item and fail-stop out of bounds.
use crate::gen::Bytes;
use crate::sym;
use flatcontainer::impls::index::IndexOptimized;
use flatcontainer::{ColumnsRegion, IntoOwned, MirrorRegion, Push, Region, SliceRegion, StringRegion};

/// Region holding three adjacent items of 2, 1, 2 symbolic bytes; the middle one is read.
fn slice_region() -> (SliceRegion<MirrorRegion<u8>>, (usize, usize), Bytes<3>) {
    let mut r = SliceRegion::<MirrorRegion<u8>>::default();
    let a = Bytes::<3>::any_len(2);
    let b = Bytes::<3>::any_len(1);
    let c = Bytes::<3>::any_len(2);
    let _ = r.push(a.as_slice());
    let ib = r.push(b.as_slice());
    let _ = r.push(c.as_slice());
    (r, ib, b)
}

// @h prop=C13 tier=quick kind=proof inst="ReadSlice<MirrorRegion<u8>> region-backed" bounds="items of 2,1,2 symbolic bytes, the middle one read at every i < len; first item at symbolic i < 2" desc="get(i) is the i-th element of that item; len/is_empty/iteration agree"
#[cfg_attr(kani, kani::proof, kani::unwind(5))]
pub fn c13_slice_in_bounds() {
    let (r, ib, b) = slice_region();
    let item = r.index(ib);
    assert!(item.len() == 1 && !item.is_empty(), "C13: len/is_empty disagree with the item");
    assert!(item.get(0) == b.buf[0], "C13: get(0) is not the item's first element");
    assert!(item.iter().count() == 1, "C13: iteration count disagrees with len");
    cover!(true, "end reached");
    sym::forget(r);
}

// @h prop=C13 tier=quick kind=must_panic inst="ReadSlice<MirrorRegion<u8>> region-backed" bounds="items of 2,1,2 symbolic bytes, middle item, any i >= len (the neighbour's elements are at len, len+1)" desc="get(i >= len) panics instead of returning a neighbour's element"
#[cfg_attr(kani, kani::proof, kani::unwind(5))]
pub fn c13_slice_oob() {
    let (r, ib, _b) = slice_region();
    let item = r.index(ib);
    let i = sym::usize();
    sym::assume(i >= item.len());
    let _ = item.get(i);
    assert!(false, "MUST-PANIC: ReadSlice::get(i >= len) returned an element (region-backed)");
}

// @h prop=C13 tier=quick kind=must_panic inst="ReadSlice<MirrorRegion<u8>> borrowed from an owned Vec" bounds="owned vector of 2 symbolic bytes, any i >= 2" desc="get(i >= len) panics (owned-borrowed representation)"
#[cfg_attr(kani, kani::proof, kani::unwind(5))]
pub fn c13_slice_borrowed_oob() {
    let v: Vec<u8> = Bytes::<3>::any_len(2).to_vec();
    let item = <SliceRegion<MirrorRegion<u8>> as Region>::ReadItem::borrow_as(&v);
    assert!(item.len() == 2, "C13: borrowed len wrong");
    let i = sym::usize();
    sym::assume(i >= 2);
    let _ = item.get(i);
    assert!(false, "MUST-PANIC: ReadSlice::get(i >= len) returned an element (borrowed)");
}

// @h prop=C13 tier=quick kind=proof inst="ReadSlice<MirrorRegion<u8>> borrowed from an owned Vec" bounds="owned vector of 3 symbolic bytes, symbolic i < 3" desc="get(i) is the i-th element; len/is_empty/iteration agree"
#[cfg_attr(kani, kani::proof, kani::unwind(6))]
pub fn c13_slice_borrowed_in_bounds() {
    let b = Bytes::<3>::any_len(3);
    let v: Vec<u8> = b.to_vec();
    let item = <SliceRegion<MirrorRegion<u8>> as Region>::ReadItem::borrow_as(&v);
    assert!(item.len() == 3 && !item.is_empty(), "C13: borrowed len/is_empty wrong");
    let i = sym::usize();
    sym::assume(i < 3);
    assert!(item.get(i) == b.buf[i], "C13: borrowed get(i) is not the i-th element");
    assert!(item.iter().count() == 3, "C13: borrowed iteration count disagrees with len");
    cover!(true, "end reached");
}

// @h prop=C13 tier=quick kind=must_panic inst="ReadSlice<StringRegion>" bounds="items of 1 and 2 short strings (rotation), first item, any i >= len" desc="get(i >= len) panics instead of returning the neighbour's string"
#[cfg_attr(kani, kani::proof, kani::unwind(5))]
pub fn c13_slice_str_oob() {
    let mut r = SliceRegion::<StringRegion>::default();
    let a = [crate::gen::string_short()];
    let b = [crate::gen::string_short(), crate::gen::string_short()];
    let ia = r.push(a.as_slice());
    let _ = r.push(b.as_slice());
    let item = r.index(ia);
    let i = sym::usize();
    sym::assume(i >= item.len());
    let _ = item.get(i);
    assert!(false, "MUST-PANIC: ReadSlice<StringRegion>::get(i >= len) returned a string");
}

// @h prop=C13 tier=quick kind=must_panic inst="ReadSlice<SliceRegion<MirrorRegion<u8>>> (nested, inner item)" bounds="outer items [[x,y],[z]] and [[w]]; inner item [z], any j >= 1" desc="inner get(j >= len) panics instead of returning the next row's element"
#[cfg_attr(kani, kani::proof, kani::unwind(5))]
pub fn c13_nested_inner_oob() {
    let mut r = SliceRegion::<SliceRegion<MirrorRegion<u8>>>::default();
    let rows1 = vec![Bytes::<3>::any_len(2).to_vec(), Bytes::<3>::any_len(1).to_vec()];
    let rows2 = vec![Bytes::<3>::any_len(1).to_vec()];
    let i1 = r.push(&rows1);
    let _ = r.push(&rows2);
    let outer = r.index(i1);
    let inner = outer.get(1);
    assert!(inner.len() == 1, "C13: inner len wrong");
    let j = sym::usize();
    sym::assume(j >= 1);
    let _ = inner.get(j);
    assert!(false, "MUST-PANIC: nested ReadSlice::get(j >= len) returned an element");
}

// @h prop=C13 tier=quick kind=must_panic inst="ReadSlice<SliceRegion<MirrorRegion<u8>>> (nested, outer item)" bounds="outer items of 1 and 1 rows; first item, any i >= 1" desc="outer get(i >= len) panics instead of returning the next item's row"
#[cfg_attr(kani, kani::proof, kani::unwind(5))]
pub fn c13_nested_outer_oob() {
    let mut r = SliceRegion::<SliceRegion<MirrorRegion<u8>>>::default();
    let rows1 = vec![Bytes::<3>::any_len(2).to_vec()];
    let rows2 = vec![Bytes::<3>::any_len(1).to_vec()];
    let i1 = r.push(&rows1);
    let _ = r.push(&rows2);
    let outer = r.index(i1);
    let i = sym::usize();
    sym::assume(i >= 1);
    let _ = outer.get(i);
    assert!(false, "MUST-PANIC: nested outer ReadSlice::get(i >= len) returned a row");
}

// @h prop=C13 tier=quick kind=must_panic inst="ReadColumns<MirrorRegion<u8>> region-backed" bounds="rows of 3, 1, 2 symbolic cells; middle row, any i >= 1 (columns 1 and 2 exist and hold other rows' cells)" desc="get(i >= len) panics instead of returning another row's cell"
#[cfg_attr(kani, kani::proof, kani::unwind(6))]
pub fn c13_columns_oob() {
    let mut r = ColumnsRegion::<MirrorRegion<u8>>::default();
    let a = Bytes::<3>::any_len(3);
    let b = Bytes::<3>::any_len(1);
    let c = Bytes::<3>::any_len(2);
    let _ = r.push(a.as_slice());
    let ib = r.push(b.as_slice());
    let _ = r.push(c.as_slice());
    let row = r.index(ib);
    assert!(row.len() == 1 && !row.is_empty(), "C13: row len wrong");
    assert!(row.get(0) == b.buf[0], "C13: row cell wrong");
    let i = sym::usize();
    sym::assume(i >= 1);
    let _ = row.get(i);
    assert!(false, "MUST-PANIC: ReadColumns::get(i >= len) returned a cell");
}

// @h prop=C13 tier=quick kind=must_panic inst="ReadColumns<MirrorRegion<u8>> borrowed from an owned Vec" bounds="owned row of 2 symbolic cells, any i >= 2" desc="get(i >= len) panics (owned-borrowed representation)"
#[cfg_attr(kani, kani::proof, kani::unwind(6))]
pub fn c13_columns_borrowed_oob() {
    let v: Vec<u8> = Bytes::<3>::any_len(2).to_vec();
    let row = <ColumnsRegion<MirrorRegion<u8>> as Region>::ReadItem::borrow_as(&v);
    assert!(row.len() == 2, "C13: borrowed row len wrong");
    let i = sym::usize();
    sym::assume(i >= 2);
    let _ = row.get(i);
    assert!(false, "MUST-PANIC: ReadColumns::get(i >= len) returned a cell (borrowed)");
}

// @h prop=C13 tier=quick kind=proof inst="ReadColumns<MirrorRegion<u8>> region-backed" bounds="rows of 3, 1, 2 symbolic cells; last row at symbolic i < 2" desc="get(i) is the row's own i-th cell although wider rows created more columns before it; len and iteration agree"
#[cfg_attr(kani, kani::proof, kani::unwind(6))]
pub fn c13_columns_in_bounds() {
    let mut r = ColumnsRegion::<MirrorRegion<u8>>::default();
    let a = Bytes::<3>::any_len(3);
    let b = Bytes::<3>::any_len(1);
    let c = Bytes::<3>::any_len(2);
    let _ = r.push(a.as_slice());
    let _ = r.push(b.as_slice());
    let ic = r.push(c.as_slice());
    let row = r.index(ic);
    assert!(row.len() == 2 && !row.is_empty(), "C13: row len wrong");
    let i = sym::usize();
    sym::assume(i < 2);
    assert!(row.get(i) == c.buf[i], "C13: row cell is not the row's own");
    assert!(row.iter().count() == 2, "C13: row iteration count disagrees with len");
    cover!(true, "end reached");
    sym::forget(r);
}

// @h prop=C13 tier=quick kind=must_panic inst="ReadSlice<MirrorRegion<u8>> region-backed, EMPTY item between two neighbours" bounds="items of 2, 0, 2 symbolic bytes; the empty middle item, any i >= 0" desc="every position of an empty item is out of bounds: get(i) panics instead of returning the next item's element"
#[cfg_attr(kani, kani::proof, kani::unwind(5))]
pub fn c13_slice_empty_item_oob() {
    let mut r = SliceRegion::<MirrorRegion<u8>>::default();
    let a = Bytes::<3>::any_len(2);
    let e = Bytes::<3>::any_len(0);
    let c = Bytes::<3>::any_len(2);
    let _ = r.push(a.as_slice());
    let ie = r.push(e.as_slice());
    let _ = r.push(c.as_slice());
    let item = r.index(ie);
    assert!(item.len() == 0 && item.is_empty(), "C13: empty item has a length");
    let i = sym::usize();
    let _ = item.get(i);
    assert!(false, "MUST-PANIC: ReadSlice::get(i) on an empty item returned an element");
}

// @h prop=C13 tier=quick kind=must_panic inst="ReadSlice<MirrorRegion<u8>> region-backed, last item of the region" bounds="items of 2 and 1 symbolic bytes; the last item, any i >= 1" desc="out of bounds on the last item panics (no neighbour behind it)"
#[cfg_attr(kani, kani::proof, kani::unwind(5))]
pub fn c13_slice_last_item_oob() {
    let mut r = SliceRegion::<MirrorRegion<u8>>::default();
    let a = Bytes::<3>::any_len(2);
    let b = Bytes::<3>::any_len(1);
    let _ = r.push(a.as_slice());
    let ib = r.push(b.as_slice());
    let item = r.index(ib);
    let i = sym::usize();
    sym::assume(i >= 1);
    let _ = item.get(i);
    assert!(false, "MUST-PANIC: ReadSlice::get(i >= len) on the last item returned an element");
}

// @h prop=C13 tier=quick kind=must_panic inst="ReadColumns<MirrorRegion<u8>> region-backed, EMPTY row between two rows" bounds="rows of 2, 0, 2 symbolic cells; the empty middle row, any i >= 0" desc="get(i) on an empty row panics instead of returning a neighbouring row's cell"
#[cfg_attr(kani, kani::proof, kani::unwind(6))]
pub fn c13_columns_empty_row_oob() {
    let mut r = ColumnsRegion::<MirrorRegion<u8>>::default();
    let a = Bytes::<3>::any_len(2);
    let e = Bytes::<3>::any_len(0);
    let c = Bytes::<3>::any_len(2);
    let _ = r.push(a.as_slice());
    let ie = r.push(e.as_slice());
    let _ = r.push(c.as_slice());
    let row = r.index(ie);
    assert!(row.len() == 0 && row.is_empty(), "C13: empty row has a length");
    let i = sym::usize();
    let _ = row.get(i);
    assert!(false, "MUST-PANIC: ReadColumns::get(i) on an empty row returned a cell");
}

// @h prop=C13 tier=quick kind=proof inst="ReadColumns / ReadSlice iterators (region-backed and owned-borrowed): announced length" bounds="columns rows of 3 and 2 cells, slice items of 2 and 1 bytes (symbolic); hints taken fresh and after one step" desc="size_hint is exact and ExactSizeIterator::len() agrees with the item's len() (no panic), before and after advancing"
#[cfg_attr(kani, kani::proof, kani::unwind(8))]
pub fn c13_read_item_iterators_exact_size() {
    use flatcontainer::{ColumnsRegion, IntoOwned, MirrorRegion, Push, Region, SliceRegion};
    let w = sym::bytes::<3>();
    let v = sym::bytes::<2>();
    let mut c = ColumnsRegion::<MirrorRegion<u8>>::default();
    let iw = c.push(w.as_slice());
    let iv = c.push(v.as_slice());
    let row = c.index(iw);
    let mut it = row.iter();
    assert!(it.size_hint() == (3, Some(3)) && it.len() == 3 && row.len() == 3, "C13: a region-backed row iterator announces a length that differs from len()");
    let _ = it.next();
    assert!(it.size_hint() == (2, Some(2)) && it.len() == 2, "C13: a row iterator's announced length is wrong after advancing");
    assert!(c.index(iv).iter().len() == 2, "C13: second row's iterator announces a different length");
    let owned: Vec<u8> = w.to_vec();
    let brow = <ColumnsRegion<MirrorRegion<u8>> as Region>::ReadItem::borrow_as(&owned);
    assert!(brow.iter().len() == 3 && brow.len() == 3, "C13: an owned-borrowed row iterator announces a different length");
    let mut s = SliceRegion::<MirrorRegion<u8>>::default();
    let _ = s.push(v.as_slice());
    let i1 = s.push(w.as_slice());
    let item = s.index(i1);
    let mut jt = item.iter();
    let (lo, hi) = jt.size_hint();
    assert!(lo <= 3 && hi.map_or(true, |h| h >= 3), "C13: a slice item iterator's size hint is not a valid bound");
    let _ = jt.next();
    let (lo, hi) = jt.size_hint();
    assert!(lo <= 2 && hi.map_or(true, |h| h >= 2) && jt.count() == 2, "C13: a slice item iterator's size hint is not a valid bound after advancing");
    cover!(true, "end reached");
    sym::forget((c, s, owned));
}

// @h memw=5 prop=C13 tier=quick kind=proof inst="ReadSlice / ReadColumns iterators (region-backed, incl. an EMPTY item between neighbours, and owned-borrowed): last(), nth(k), exhausted iterators" bounds="slice items and rows of 2, 0, 2 symbolic bytes; nth(k) for symbolic k <= 3; last() fresh, after one step and after exhaustion" desc="the iterator's other entry points (last, nth, count) stay inside the item: last() of an empty item is None (not the predecessor's element), last() of an exhausted iterator is None, nth(k) is the k-th element or None"
#[cfg_attr(kani, kani::proof, kani::unwind(7))]
pub fn c13_read_item_iterator_adaptors() {
    let a = Bytes::<3>::any_len(2);
    let e = Bytes::<3>::any_len(0);
    let c = Bytes::<3>::any_len(2);
    let k = sym::usize();
    sym::assume(k <= 3);
    let mut r = SliceRegion::<MirrorRegion<u8>>::default();
    let ia = r.push(a.as_slice());
    let ie = r.push(e.as_slice());
    let ic = r.push(c.as_slice());
    assert!(r.index(ie).iter().last().is_none(), "C13: last() of an empty slice item returned an element (a neighbour's)");
    assert!(r.index(ie).iter().nth(0).is_none(), "C13: nth(0) of an empty slice item returned an element");
    assert!(r.index(ia).iter().last() == Some(a.buf[1]), "C13: last() of a slice item is not its last element");
    assert!(r.index(ic).iter().last() == Some(c.buf[1]), "C13: last() of the region's last slice item is not its last element");
    let mut it = r.index(ia).iter();
    let _ = it.next();
    let mut it2 = it.clone();
    assert!(it.last() == Some(a.buf[1]), "C13: last() after one step is not the item's last element");
    let _ = it2.next();
    assert!(it2.last().is_none(), "C13: last() of an exhausted slice iterator returned an element");
    let got = r.index(ic).iter().nth(k);
    assert!(got == if k < 2 { Some(c.buf[k]) } else { None }, "C13: nth(k) of a slice item is not its k-th element / None");
    let got = r.index(ia).iter().nth(k);
    assert!(got == if k < 2 { Some(a.buf[k]) } else { None }, "C13: nth(k) of a slice item reaches into its neighbour");
    let mut t = ColumnsRegion::<MirrorRegion<u8>>::default();
    let ja = t.push(a.as_slice());
    let je = t.push(e.as_slice());
    let jc = t.push(c.as_slice());
    assert!(t.index(je).iter().last().is_none(), "C13: last() of an empty row returned a cell");
    assert!(t.index(ja).iter().last() == Some(a.buf[1]), "C13: last() of a row is not its last cell");
    let got = t.index(jc).iter().nth(k);
    assert!(got == if k < 2 { Some(c.buf[k]) } else { None }, "C13: nth(k) of a row is not its k-th cell / None");
    let owned: Vec<u8> = a.as_slice().to_vec();
    let b = <SliceRegion<MirrorRegion<u8>> as Region>::ReadItem::borrow_as(&owned);
    assert!(b.iter().last() == Some(a.buf[1]), "C13: last() of an owned-borrowed slice item is not its last element");
    let got = b.iter().nth(k);
    assert!(got == if k < 2 { Some(a.buf[k]) } else { None }, "C13: nth(k) of an owned-borrowed slice item is wrong");
    cover!(true, "end reached");
    sym::forget((r, t, owned));
}
