//! Symbolic value generators shared by the property modules (bounds are part of every claim that uses them).
use crate::sym;

/// Up to `N` symbolic bytes with a symbolic length.
#[derive(Clone, Copy)]
pub struct Bytes<const N: usize> {
    pub buf: [u8; N],
    pub len: usize,
}

impl<const N: usize> Bytes<N> {
    /// Symbolic contents, symbolic length `0..=N`.
    pub fn any() -> Self {
        let buf = sym::bytes::<N>();
        let len = sym::upto(N);
        Self { buf, len }
    }
    /// Symbolic contents over the byte domain `0..=max`, symbolic length.
    pub fn any_small(max: u8) -> Self {
        let s = Self::any();
        let mut i = 0;
        while i < N {
            sym::assume(s.buf[i] <= max);
            i += 1;
        }
        s
    }
    /// Symbolic contents, fixed length.
    pub fn any_len(len: usize) -> Self {
        Self { buf: sym::bytes::<N>(), len }
    }
    pub fn as_slice(&self) -> &[u8] {
        &self.buf[..self.len]
    }
    pub fn to_vec(&self) -> Vec<u8> {
        self.as_slice().to_vec()
    }
    /// Element-wise equality with a slice, decided at one symbolic position (no memcmp loop).
    pub fn same_as(&self, other: &[u8]) -> bool {
        if other.len() != self.len {
            return false;
        }
        if self.len == 0 {
            return true;
        }
        let i = sym::usize();
        sym::assume(i < self.len);
        other[i] == self.buf[i]
    }
}

/// A string of up to `K` symbolic Unicode scalar values (1–4 bytes each), symbolic count.
pub fn string<const K: usize>() -> String {
    let n = sym::upto(K);
    let mut s = String::with_capacity(4 * K);
    let mut i = 0;
    while i < K {
        let c = sym::char();
        if i < n {
            s.push(c);
        }
        i += 1;
    }
    s
}

/// A string of exactly `K` symbolic scalar values.
pub fn string_exact<const K: usize>() -> String {
    let mut s = String::with_capacity(4 * K);
    let mut i = 0;
    while i < K {
        s.push(sym::char());
        i += 1;
    }
    s
}

/// Byte-wise equality of two strings decided at one symbolic position.
pub fn same_str(a: &str, b: &str) -> bool {
    let (a, b) = (a.as_bytes(), b.as_bytes());
    if a.len() != b.len() {
        return false;
    }
    if a.is_empty() {
        return true;
    }
    let i = sym::usize();
    sym::assume(i < a.len());
    a[i] == b[i]
}

/// Byte-wise equality of two slices decided at one symbolic position.
pub fn same_bytes(a: &[u8], b: &[u8]) -> bool {
    if a.len() != b.len() {
        return false;
    }
    if a.is_empty() {
        return true;
    }
    let i = sym::usize();
    sym::assume(i < a.len());
    a[i] == b[i]
}
