//! Symbolic value generators shared by the property modules (bounds are part of every claim that uses them).
use crate::sym;

/// Up to `N` symbolic bytes with a symbolic length.
#[derive(Clone, Copy)]
pub struct Bytes<const N: usize> {
    pub buf: [u8; N],
    pub len: usize,
}

impl<const N: usize> Bytes<N> {
    /// Symbolic contents; length symbolic in `0..=N` when `sym::symbolic_len()`, else the next of the rotation 2,3,0,1.
    pub fn any() -> Self {
        let buf = sym::bytes::<N>();
        let len = if sym::symbolic_len() {
            sym::upto(N)
        } else {
            let l = len3_next();
            if l > N {
                N
            } else {
                l
            }
        };
        Self { buf, len }
    }
    /// Symbolic contents, symbolic length `0..=N`.
    pub fn any_symlen() -> Self {
        Self { buf: sym::bytes::<N>(), len: sym::upto(N) }
    }
    /// Symbolic contents over the byte domain `0..=max`, symbolic length.
    pub fn any_small(max: u8) -> Self {
        let s = Self::any();
        let mut i = 0;
        while i < N {
            sym::assume(s.buf[i] <= max);
            i += 1;
        }
        s
    }
    /// Symbolic contents, fixed length.
    pub fn any_len(len: usize) -> Self {
        Self { buf: sym::bytes::<N>(), len }
    }
    pub fn as_slice(&self) -> &[u8] {
        &self.buf[..self.len]
    }
    pub fn to_vec(&self) -> Vec<u8> {
        self.as_slice().to_vec()
    }
    /// Element-wise equality with a slice, decided at one symbolic position (no memcmp loop).
    pub fn same_as(&self, other: &[u8]) -> bool {
        if other.len() != self.len {
            return false;
        }
        if self.len == 0 {
            return true;
        }
        let i = sym::usize();
        sym::assume(i < self.len);
        other[i] == self.buf[i]
    }
}

/// A string of up to `K` symbolic Unicode scalar values (1–4 bytes each), symbolic count.
pub fn string<const K: usize>() -> String {
    let n = sym::upto(K);
    let mut s = String::with_capacity(4 * K);
    let mut i = 0;
    while i < K {
        let c = sym::char();
        if i < n {
            s.push(c);
        }
        i += 1;
    }
    s
}

/// A string of exactly `K` symbolic scalar values.
pub fn string_exact<const K: usize>() -> String {
    let mut s = String::with_capacity(4 * K);
    let mut i = 0;
    while i < K {
        s.push(sym::char());
        i += 1;
    }
    s
}

/// Byte-wise equality of two strings decided at one symbolic position.
pub fn same_str(a: &str, b: &str) -> bool {
    let (a, b) = (a.as_bytes(), b.as_bytes());
    if a.len() != b.len() {
        return false;
    }
    if a.is_empty() {
        return true;
    }
    let i = sym::usize();
    sym::assume(i < a.len());
    a[i] == b[i]
}

/// Byte-wise equality of two slices decided at one symbolic position.
pub fn same_bytes(a: &[u8], b: &[u8]) -> bool {
    if a.len() != b.len() {
        return false;
    }
    if a.is_empty() {
        return true;
    }
    let i = sym::usize();
    sym::assume(i < a.len());
    a[i] == b[i]
}

/// UTF-8 shape rotation: byte widths of the scalar values of the k-th generated string.
pub const STR_SHAPES: [&[u8]; 6] = [&[2, 3], &[4], &[], &[1, 2], &[3], &[1]];

/// Push one symbolic scalar value of UTF-8 width `w` (valid by construction: lead bytes C2..DF / E1..EC / F1..F3 take
/// any continuation bytes; the special leads E0, ED, F0, F4 are outside the bound).
fn push_scalar(s: &mut String, w: u8) {
    let v = unsafe { s.as_mut_vec() };
    match w {
        1 => {
            let b = sym::u8();
            sym::assume(b < 0x80);
            v.push(b);
        }
        2 => {
            let b = sym::u8();
            sym::assume(0xC2 <= b && b <= 0xDF);
            v.push(b);
            v.push(cont());
        }
        3 => {
            let b = sym::u8();
            sym::assume(0xE1 <= b && b <= 0xEC);
            v.push(b);
            v.push(cont());
            v.push(cont());
        }
        _ => {
            let b = sym::u8();
            sym::assume(0xF1 <= b && b <= 0xF3);
            v.push(b);
            v.push(cont());
            v.push(cont());
            v.push(cont());
        }
    }
}

fn cont() -> u8 {
    let b = sym::u8();
    sym::assume(b & 0xC0 == 0x80);
    b
}

/// A string with the given concrete scalar widths and symbolic contents.
pub fn string_shaped(widths: &[u8]) -> String {
    let mut s = String::with_capacity(8);
    for &w in widths {
        push_scalar(&mut s, w);
    }
    #[cfg(not(kani))]
    assert!(core::str::from_utf8(s.as_bytes()).is_ok(), "REPLAY-ASSUME-VIOLATED: generator produced invalid UTF-8");
    s
}

/// The next string of the shape rotation.
pub fn string_next() -> String {
    string_shaped(STR_SHAPES[sym::next_shape() % STR_SHAPES.len()])
}

/// A short string: next of the rotation `[1-byte], [2-byte], [], [3-byte]` (for rows of strings).
pub fn string_short() -> String {
    const S: [&[u8]; 4] = [&[1], &[2], &[], &[3]];
    string_shaped(S[sym::next_shape() % 4])
}

/// Next concrete length of the rotation 2, 1, 0, 2, ...
pub fn len_next(max: usize) -> usize {
    const L: [usize; 4] = [2, 1, 0, 2];
    let l = L[sym::next_shape() % 4];
    if l > max {
        max
    } else {
        l
    }
}

/// Next concrete length of the rotation 2, 3, 0, 1, ... (row widths: a wider row after a narrower one, an empty one, ...).
pub fn len3_next() -> usize {
    const L: [usize; 4] = [2, 3, 0, 1];
    L[sym::next_shape() % 4]
}
