use crate::sym;
use flatcontainer::impls::index::{IndexContainer, IndexList, IndexOptimized, Stride};
use flatcontainer::impls::storage::Storage;

type IL = IndexList<Vec<u32>, Vec<u64>>;

// @h prop=C00 tier=quick kind=proof
#[cfg_attr(kani, kani::proof, kani::unwind(5))]
pub fn x_il_push_only() {
    let vals = sym::words::<3>();
    let mut c = IL::default();
    c.push(vals[0]);
    c.push(vals[1]);
    c.push(vals[2]);
    assert!(c.len() == 3);
    sym::forget(c);
}

// @h prop=C00 tier=quick kind=proof
#[cfg_attr(kani, kani::proof, kani::unwind(5))]
pub fn x_il_push_index_end() {
    let vals = sym::words::<3>();
    let mut c = IL::default();
    c.push(vals[0]);
    c.push(vals[1]);
    c.push(vals[2]);
    let j = sym::usize();
    sym::assume(j < 3);
    assert!(c.index(j) == vals[j]);
    sym::forget(c);
}

// @h prop=C00 tier=quick kind=proof
#[cfg_attr(kani, kani::proof, kani::unwind(5))]
pub fn x_il_push_index_all_concrete() {
    let vals = sym::words::<3>();
    let mut c = IL::default();
    c.push(vals[0]);
    c.push(vals[1]);
    c.push(vals[2]);
    assert!(c.index(0) == vals[0]);
    assert!(c.index(1) == vals[1]);
    assert!(c.index(2) == vals[2]);
    sym::forget(c);
}

// @h prop=C00 tier=quick kind=proof
#[cfg_attr(kani, kani::proof, kani::unwind(5))]
pub fn x_il_push_iter() {
    let vals = sym::words::<3>();
    let mut c = IL::default();
    c.push(vals[0]);
    c.push(vals[1]);
    c.push(vals[2]);
    let mut it = c.iter();
    assert!(it.next() == Some(vals[0]));
    assert!(it.next() == Some(vals[1]));
    assert!(it.next() == Some(vals[2]));
    assert!(it.next() == None);
    drop(it);
    sym::forget(c);
}

// @h prop=C00 tier=quick kind=proof
#[cfg_attr(kani, kani::proof, kani::unwind(5))]
pub fn x_il_shape_assumed() {
    let vals = sym::words::<3>();
    sym::assume(vals[0] <= u32::MAX as usize);
    sym::assume(vals[1] > u32::MAX as usize);
    let mut c = IL::default();
    c.push(vals[0]);
    c.push(vals[1]);
    c.push(vals[2]);
    assert!(c.index(0) == vals[0]);
    assert!(c.index(1) == vals[1]);
    assert!(c.index(2) == vals[2]);
    sym::forget(c);
}

// @h prop=C00 tier=quick kind=proof
#[cfg_attr(kani, kani::proof, kani::unwind(5))]
pub fn x_il_shape_cast() {
    let a = sym::u32() as usize;
    let b = sym::u32() as usize;
    let d = sym::u32() as usize;
    let mut c = IL::default();
    c.push(a);
    c.push(b);
    c.push(d);
    assert!(c.index(0) == a);
    assert!(c.index(1) == b);
    assert!(c.index(2) == d);
    sym::forget(c);
}

// @h prop=C00 tier=quick kind=proof
#[cfg_attr(kani, kani::proof, kani::unwind(5))]
pub fn x_il_presized() {
    let vals = sym::words::<3>();
    let mut c = IL { smol: Vec::with_capacity(4), chonk: Vec::with_capacity(4) };
    c.push(vals[0]);
    c.push(vals[1]);
    c.push(vals[2]);
    assert!(c.index(0) == vals[0]);
    assert!(c.index(1) == vals[1]);
    assert!(c.index(2) == vals[2]);
    sym::forget(c);
}

// @h prop=C00 tier=quick kind=proof
#[cfg_attr(kani, kani::proof, kani::unwind(5))]
pub fn x_vec_u32() {
    let (a, b, d) = (sym::u32(), sym::u32(), sym::u32());
    let mut c: Vec<u32> = Vec::new();
    c.push(a);
    c.push(b);
    c.push(d);
    assert!(c[0] == a);
    assert!(c[1] == b);
    assert!(c[2] == d);
    sym::forget(c);
}

// @h prop=C00 tier=quick kind=proof
#[cfg_attr(kani, kani::proof, kani::unwind(5))]
pub fn x_two_vecs_choice() {
    let vals = sym::words::<3>();
    let mut s: Vec<usize> = Vec::new();
    let mut l: Vec<usize> = Vec::new();
    let mut i = 0;
    while i < 3 {
        if l.is_empty() && vals[i] <= u32::MAX as usize { s.push(vals[i]); } else { l.push(vals[i]); }
        i += 1;
    }
    let j = sym::usize();
    sym::assume(j < 3);
    let got = if j < s.len() { s[j] } else { l[j - s.len()] };
    assert!(got == vals[j]);
    sym::forget(s);
    sym::forget(l);
}

// @h prop=C00 tier=quick kind=proof
#[cfg_attr(kani, kani::proof, kani::unwind(5))]
pub fn x_il_all_small_index() {
    let mut c = IL::default();
    c.push(1);
    c.push(2);
    c.push(3);
    assert!(c.index(0) == 1);
    assert!(c.index(2) == 3);
    sym::forget(c);
}
