use crate::sym;
use flatcontainer::impls::huffman_container::HuffmanContainer;
use flatcontainer::*;

// @h prop=C00 tier=quick kind=proof engine=paths timeout=900
#[cfg_attr(kani, kani::proof, kani::unwind(14))]
pub fn x_huff_raw2() {
    let a = sym::u8();
    let b = sym::u8();
    let mut c = HuffmanContainer::<u8>::default();
    let i = c.push([a, b].as_slice());
    let o = c.index(i).into_owned();
    assert!(o.len() == 2 && o[0] == a && o[1] == b);
    sym::forget((c, o));
}

// @h prop=C00 tier=quick kind=proof engine=paths timeout=1800 unwindset="drop_glue|drop_in_place:1;from_fn|Decode.*map:258;insert_decode:258;any_void:258"
#[cfg_attr(kani, kani::proof, kani::unwind(14))]
pub fn x_huff_merge2() {
    let a = sym::u8();
    let b = sym::u8();
    sym::assume(a != b);
    let mut c = HuffmanContainer::<u8>::default();
    let _ = c.push([a, b, a].as_slice());
    let mut m = HuffmanContainer::merge_regions([&c].into_iter());
    let i = m.push([a, b].as_slice());
    let o = m.index(i).into_owned();
    assert!(o.len() == 2 && o[0] == a && o[1] == b);
    assert!(i == (0, 2));
    sym::forget((c, m, o));
}
