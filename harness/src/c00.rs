use crate::sym;
use flatcontainer::impls::huffman_container::verif_hooks::Code;
use std::collections::BTreeMap;

// @h prop=C00 tier=quick kind=proof timeout=1500 unwindset="drop_glue|drop_in_place:1;from_fn:258;insert_decode:258;Decode.*map:258;any_void:258;into_iter|IntoIter|dying:4"
#[cfg_attr(kani, kani::proof, kani::unwind(4))]
pub fn x_create_from_single() {
    let s = sym::u8();
    let n = sym::i64();
    sym::assume(n >= 1 && n <= 1000);
    let mut counts = BTreeMap::new();
    counts.insert(s, n);
    let code = Code::<u8>::create_from(counts);
    match code.code_of(&s) {
        Some((bits, _)) => assert!(bits >= 1, "single symbol gets a zero-bit code"),
        None => assert!(false, "symbol missing from the code"),
    }
    sym::forget(code);
}
