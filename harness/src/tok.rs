//! A positional token format for serde (C16 only): `Serializer`/`Deserializer` over a fixed `[Tok; CAP]` buffer, so that the
//! code executed symbolically is exactly the crate's `#[derive(Serialize, Deserialize)]` output and its hand-written
//! bounds — not a text parser.  Not self-describing: structs and tuples are their fields in order, sequences are a
//! length token followed by the elements, enum variants are an index token followed by the payload.
//!
//! The property quantifies over a *self-describing* format.  For plain derives the two agree (same fields, same order,
//! same values).  Where the crate's serde code asks for something only a self-describing format can do (`serialize_map`,
//! `deserialize_any`, `deserialize_map`, `deserialize_ignored_any`, string data — what `flatten`, `untagged`, `tag = ..`
//! etc. generate) this format records a *limit* and the failure is reported as a `HARNESS-LIMIT` panic, which the runner
//! classifies as *inconclusive*: the harness cannot tell whether the property still holds.  The self-describing twin is
//! `toksd.rs` (affordable for the smallest states only).  (The limit is a side flag, not a variant of the error type:
//! turning the zero-sized `TokError` into a two-variant enum took `c16_index_list` from 6 s to out of memory at 12 GB.)
use serde::de::{self, DeserializeSeed, EnumAccess, SeqAccess, VariantAccess, Visitor};
use serde::ser::{self, Serialize};
use serde::Deserialize;

pub const CAP: usize = 40;

#[derive(Clone, Copy, PartialEq, Debug)]
pub enum Tok {
    End,
    Unit,
    Bool(bool),
    U8(u8),
    U16(u16),
    U32(u32),
    U64(u64),
    Char(char),
    Len(u32),
    Variant(u32),
    None,
    Some,
}

#[derive(Debug)]
pub struct TokError;

// see sym.rs: mutable statics of the harness crate start from magic bit patterns (Kani 0.68 merges zero-initialised ones
// with promoted constants)
const LIMIT_OFF: u64 = 0x5eed_5afe_7071_0000;
static mut LIMIT_RAW: u64 = LIMIT_OFF;

/// The format was asked for something a positional format cannot express.
fn limit() -> TokError {
    unsafe { LIMIT_RAW = LIMIT_OFF + 1 }
    TokError
}
fn limit_hit() -> bool {
    unsafe { LIMIT_RAW != LIMIT_OFF }
}
impl core::fmt::Display for TokError {
    fn fmt(&self, _f: &mut core::fmt::Formatter<'_>) -> core::fmt::Result {
        Ok(())
    }
}
impl std::error::Error for TokError {}
impl ser::Error for TokError {
    fn custom<T: core::fmt::Display>(_msg: T) -> Self {
        TokError
    }
}
impl de::Error for TokError {
    fn custom<T: core::fmt::Display>(_msg: T) -> Self {
        TokError
    }
}

pub struct Buf {
    pub toks: [Tok; CAP],
    pub len: usize,
}

impl Buf {
    pub fn new() -> Self {
        Buf { toks: [Tok::End; CAP], len: 0 }
    }
    fn put(&mut self, t: Tok) -> Result<(), TokError> {
        if self.len >= CAP {
            return Err(limit());
        }
        self.toks[self.len] = t;
        self.len += 1;
        Ok(())
    }
}

/// Serialise `v` into a fresh buffer.
pub fn to_tokens<T: Serialize>(v: &T) -> Buf {
    let mut b = Buf::new();
    match v.serialize(&mut b) {
        Ok(()) => {}
        Err(_) if limit_hit() => panic!("HARNESS-LIMIT: the positional token format cannot express what the serialiser asks for (map, string, signed/128-bit integer, or more than CAP tokens)"),
        Err(_) => panic!("TOK: serialisation failed"),
    }
    b
}

/// Deserialise a value from the buffer; all tokens must be consumed.
pub fn from_tokens<'de, T: Deserialize<'de>>(b: &Buf) -> T {
    let mut r = Reader { buf: b, pos: 0 };
    let v = match T::deserialize(&mut r) {
        Ok(v) => v,
        Err(_) if limit_hit() => panic!("HARNESS-LIMIT: the positional token format cannot express what the deserialiser asks for (deserialize_any / map / string / ignored_any: needs a self-describing format)"),
        Err(_) => panic!("TOK: deserialisation failed"),
    };
    assert!(r.pos == b.len, "TOK: trailing tokens after deserialisation");
    v
}

impl<'a> ser::Serializer for &'a mut Buf {
    type Ok = ();
    type Error = TokError;
    type SerializeSeq = Self;
    type SerializeTuple = Self;
    type SerializeTupleStruct = Self;
    type SerializeTupleVariant = Self;
    type SerializeMap = ser::Impossible<(), TokError>;
    type SerializeStruct = Self;
    type SerializeStructVariant = Self;

    fn serialize_bool(self, v: bool) -> Result<(), TokError> {
        self.put(Tok::Bool(v))
    }
    fn serialize_i8(self, _v: i8) -> Result<(), TokError> {
        Err(limit())
    }
    fn serialize_i16(self, _v: i16) -> Result<(), TokError> {
        Err(limit())
    }
    fn serialize_i32(self, _v: i32) -> Result<(), TokError> {
        Err(limit())
    }
    fn serialize_i64(self, _v: i64) -> Result<(), TokError> {
        Err(limit())
    }
    fn serialize_u8(self, v: u8) -> Result<(), TokError> {
        self.put(Tok::U8(v))
    }
    fn serialize_u16(self, v: u16) -> Result<(), TokError> {
        self.put(Tok::U16(v))
    }
    fn serialize_u32(self, v: u32) -> Result<(), TokError> {
        self.put(Tok::U32(v))
    }
    fn serialize_u64(self, v: u64) -> Result<(), TokError> {
        self.put(Tok::U64(v))
    }
    fn serialize_f32(self, _v: f32) -> Result<(), TokError> {
        Err(limit())
    }
    fn serialize_f64(self, v: f64) -> Result<(), TokError> {
        self.put(Tok::U64(v.to_bits()))
    }
    fn serialize_char(self, v: char) -> Result<(), TokError> {
        self.put(Tok::Char(v))
    }
    fn serialize_str(self, _v: &str) -> Result<(), TokError> {
        Err(limit())
    }
    fn serialize_bytes(self, _v: &[u8]) -> Result<(), TokError> {
        Err(limit())
    }
    fn serialize_none(self) -> Result<(), TokError> {
        self.put(Tok::None)
    }
    fn serialize_some<T: ?Sized + Serialize>(self, value: &T) -> Result<(), TokError> {
        self.put(Tok::Some)?;
        value.serialize(self)
    }
    fn serialize_unit(self) -> Result<(), TokError> {
        self.put(Tok::Unit)
    }
    fn serialize_unit_struct(self, _name: &'static str) -> Result<(), TokError> {
        self.put(Tok::Unit)
    }
    fn serialize_unit_variant(self, _n: &'static str, idx: u32, _v: &'static str) -> Result<(), TokError> {
        self.put(Tok::Variant(idx))
    }
    fn serialize_newtype_struct<T: ?Sized + Serialize>(self, _n: &'static str, value: &T) -> Result<(), TokError> {
        value.serialize(self)
    }
    fn serialize_newtype_variant<T: ?Sized + Serialize>(
        self,
        _n: &'static str,
        idx: u32,
        _v: &'static str,
        value: &T,
    ) -> Result<(), TokError> {
        self.put(Tok::Variant(idx))?;
        value.serialize(self)
    }
    fn serialize_seq(self, len: Option<usize>) -> Result<Self, TokError> {
        match len {
            Some(n) => {
                self.put(Tok::Len(n as u32))?;
                Ok(self)
            }
            None => Err(limit()),
        }
    }
    fn serialize_tuple(self, _len: usize) -> Result<Self, TokError> {
        Ok(self)
    }
    fn serialize_tuple_struct(self, _n: &'static str, _len: usize) -> Result<Self, TokError> {
        Ok(self)
    }
    fn serialize_tuple_variant(self, _n: &'static str, idx: u32, _v: &'static str, _len: usize) -> Result<Self, TokError> {
        self.put(Tok::Variant(idx))?;
        Ok(self)
    }
    fn serialize_map(self, _len: Option<usize>) -> Result<Self::SerializeMap, TokError> {
        Err(limit())
    }
    fn serialize_struct(self, _n: &'static str, _len: usize) -> Result<Self, TokError> {
        Ok(self)
    }
    fn serialize_struct_variant(self, _n: &'static str, idx: u32, _v: &'static str, _len: usize) -> Result<Self, TokError> {
        self.put(Tok::Variant(idx))?;
        Ok(self)
    }
}

macro_rules! compound {
    ($tr:path, $f:ident) => {
        impl<'a> $tr for &'a mut Buf {
            type Ok = ();
            type Error = TokError;
            fn $f<T: ?Sized + Serialize>(&mut self, value: &T) -> Result<(), TokError> {
                value.serialize(&mut **self)
            }
            fn end(self) -> Result<(), TokError> {
                Ok(())
            }
        }
    };
}
compound!(ser::SerializeSeq, serialize_element);
compound!(ser::SerializeTuple, serialize_element);
compound!(ser::SerializeTupleStruct, serialize_field);
compound!(ser::SerializeTupleVariant, serialize_field);

impl<'a> ser::SerializeStruct for &'a mut Buf {
    type Ok = ();
    type Error = TokError;
    fn serialize_field<T: ?Sized + Serialize>(&mut self, _key: &'static str, value: &T) -> Result<(), TokError> {
        value.serialize(&mut **self)
    }
    fn end(self) -> Result<(), TokError> {
        Ok(())
    }
}
impl<'a> ser::SerializeStructVariant for &'a mut Buf {
    type Ok = ();
    type Error = TokError;
    fn serialize_field<T: ?Sized + Serialize>(&mut self, _key: &'static str, value: &T) -> Result<(), TokError> {
        value.serialize(&mut **self)
    }
    fn end(self) -> Result<(), TokError> {
        Ok(())
    }
}

pub struct Reader<'b> {
    buf: &'b Buf,
    pos: usize,
}

impl<'b> Reader<'b> {
    fn next(&mut self) -> Result<Tok, TokError> {
        if self.pos >= self.buf.len {
            return Err(TokError);
        }
        let t = self.buf.toks[self.pos];
        self.pos += 1;
        Ok(t)
    }
    fn peek(&self) -> Result<Tok, TokError> {
        if self.pos >= self.buf.len {
            return Err(TokError);
        }
        Ok(self.buf.toks[self.pos])
    }
}

struct Counted<'r, 'b> {
    r: &'r mut Reader<'b>,
    left: usize,
}

impl<'de, 'r, 'b> SeqAccess<'de> for Counted<'r, 'b> {
    type Error = TokError;
    fn next_element_seed<T: DeserializeSeed<'de>>(&mut self, seed: T) -> Result<Option<T::Value>, TokError> {
        if self.left == 0 {
            return Ok(None);
        }
        self.left -= 1;
        seed.deserialize(&mut *self.r).map(Some)
    }
    fn size_hint(&self) -> Option<usize> {
        Some(self.left)
    }
}

impl<'de, 'r, 'b> EnumAccess<'de> for &'r mut Reader<'b> {
    type Error = TokError;
    type Variant = Self;
    fn variant_seed<V: DeserializeSeed<'de>>(self, seed: V) -> Result<(V::Value, Self), TokError> {
        let v = seed.deserialize(&mut *self)?;
        Ok((v, self))
    }
}

impl<'de, 'r, 'b> VariantAccess<'de> for &'r mut Reader<'b> {
    type Error = TokError;
    fn unit_variant(self) -> Result<(), TokError> {
        Ok(())
    }
    fn newtype_variant_seed<T: DeserializeSeed<'de>>(self, seed: T) -> Result<T::Value, TokError> {
        seed.deserialize(self)
    }
    fn tuple_variant<V: Visitor<'de>>(self, len: usize, visitor: V) -> Result<V::Value, TokError> {
        visitor.visit_seq(Counted { r: self, left: len })
    }
    fn struct_variant<V: Visitor<'de>>(self, fields: &'static [&'static str], visitor: V) -> Result<V::Value, TokError> {
        visitor.visit_seq(Counted { r: self, left: fields.len() })
    }
}

impl<'de, 'r, 'b> de::Deserializer<'de> for &'r mut Reader<'b> {
    type Error = TokError;

    fn deserialize_any<V: Visitor<'de>>(self, _v: V) -> Result<V::Value, TokError> {
        Err(limit())
    }
    fn deserialize_bool<V: Visitor<'de>>(self, v: V) -> Result<V::Value, TokError> {
        match self.next()? {
            Tok::Bool(b) => v.visit_bool(b),
            _ => Err(TokError),
        }
    }
    fn deserialize_u8<V: Visitor<'de>>(self, v: V) -> Result<V::Value, TokError> {
        match self.next()? {
            Tok::U8(x) => v.visit_u8(x),
            _ => Err(TokError),
        }
    }
    fn deserialize_u16<V: Visitor<'de>>(self, v: V) -> Result<V::Value, TokError> {
        match self.next()? {
            Tok::U16(x) => v.visit_u16(x),
            _ => Err(TokError),
        }
    }
    fn deserialize_u32<V: Visitor<'de>>(self, v: V) -> Result<V::Value, TokError> {
        match self.next()? {
            Tok::U32(x) => v.visit_u32(x),
            _ => Err(TokError),
        }
    }
    fn deserialize_u64<V: Visitor<'de>>(self, v: V) -> Result<V::Value, TokError> {
        match self.next()? {
            Tok::U64(x) => v.visit_u64(x),
            _ => Err(TokError),
        }
    }
    fn deserialize_f64<V: Visitor<'de>>(self, v: V) -> Result<V::Value, TokError> {
        match self.next()? {
            Tok::U64(x) => v.visit_f64(f64::from_bits(x)),
            _ => Err(TokError),
        }
    }
    fn deserialize_char<V: Visitor<'de>>(self, v: V) -> Result<V::Value, TokError> {
        match self.next()? {
            Tok::Char(c) => v.visit_char(c),
            _ => Err(TokError),
        }
    }
    fn deserialize_option<V: Visitor<'de>>(self, v: V) -> Result<V::Value, TokError> {
        match self.next()? {
            Tok::None => v.visit_none(),
            Tok::Some => v.visit_some(self),
            _ => Err(TokError),
        }
    }
    fn deserialize_unit<V: Visitor<'de>>(self, v: V) -> Result<V::Value, TokError> {
        match self.next()? {
            Tok::Unit => v.visit_unit(),
            _ => Err(TokError),
        }
    }
    fn deserialize_unit_struct<V: Visitor<'de>>(self, _n: &'static str, v: V) -> Result<V::Value, TokError> {
        self.deserialize_unit(v)
    }
    fn deserialize_newtype_struct<V: Visitor<'de>>(self, _n: &'static str, v: V) -> Result<V::Value, TokError> {
        v.visit_newtype_struct(self)
    }
    fn deserialize_seq<V: Visitor<'de>>(self, v: V) -> Result<V::Value, TokError> {
        match self.next()? {
            Tok::Len(n) => v.visit_seq(Counted { r: self, left: n as usize }),
            _ => Err(TokError),
        }
    }
    fn deserialize_tuple<V: Visitor<'de>>(self, len: usize, v: V) -> Result<V::Value, TokError> {
        v.visit_seq(Counted { r: self, left: len })
    }
    fn deserialize_tuple_struct<V: Visitor<'de>>(self, _n: &'static str, len: usize, v: V) -> Result<V::Value, TokError> {
        v.visit_seq(Counted { r: self, left: len })
    }
    fn deserialize_struct<V: Visitor<'de>>(
        self,
        _n: &'static str,
        fields: &'static [&'static str],
        v: V,
    ) -> Result<V::Value, TokError> {
        v.visit_seq(Counted { r: self, left: fields.len() })
    }
    fn deserialize_enum<V: Visitor<'de>>(
        self,
        _n: &'static str,
        _variants: &'static [&'static str],
        v: V,
    ) -> Result<V::Value, TokError> {
        v.visit_enum(self)
    }
    fn deserialize_identifier<V: Visitor<'de>>(self, v: V) -> Result<V::Value, TokError> {
        match self.next()? {
            Tok::Variant(i) => v.visit_u32(i),
            _ => Err(TokError),
        }
    }
    fn deserialize_ignored_any<V: Visitor<'de>>(self, _v: V) -> Result<V::Value, TokError> {
        Err(limit())
    }
    serde::forward_to_deserialize_any! {
        i8 i16 i32 i64 i128 u128 f32 str string bytes byte_buf map
    }
}
