//! C17 — allocation discipline: no reallocation after pre-sizing (capacity form: every capacity reported by heap_size
//! stays constant while exactly the announced contents are pushed).
use crate::gen::{string_shaped, Bytes};
use crate::sym;
use flatcontainer::impls::tuple::TupleABRegion;
use flatcontainer::{
    FlatStack, MirrorRegion, OptionRegion, OwnedRegion, Push, Region, ReserveItems, ResultRegion, SliceRegion,
    StringRegion,
};

const P: usize = 8;

/// Snapshot of the capacities reported by `heap_size` (up to 8 pairs) and their number.
fn caps<R: Region>(r: &R) -> ([usize; P], usize) {
    let mut c = [0usize; P];
    let mut n = 0usize;
    r.heap_size(|_, cap| {
        if n < P {
            c[n] = cap;
        }
        n += 1;
    });
    (c, n)
}

fn same_caps(a: ([usize; P], usize), b: ([usize; P], usize)) -> bool {
    if a.1 != b.1 {
        return false;
    }
    let mut i = 0;
    while i < P {
        if i < a.1 && a.0[i] != b.0[i] {
            return false;
        }
        i += 1;
    }
    true
}

/// The three ways of announcing contents.
#[derive(Clone, Copy, PartialEq)]
enum How {
    ReserveRegions,
    MergeRegions,
}

/// Source region with the batch; target pre-sized from it (`how`), optionally already populated; then exactly the
/// batch is pushed and every capacity must stay what it was after pre-sizing.
macro_rules! presized {
    ($R:ty, $how:expr, $populated:expr, $mk:expr, |$r:ident, $v:ident| $push:expr) => {{
        let batch = $mk;
        let mut src = <$R>::default();
        for $v in batch.iter() {
            let $r = &mut src;
            let _ = $push;
        }
        let mut tgt = match $how {
            How::MergeRegions => <$R as Region>::merge_regions(core::iter::once(&src)),
            How::ReserveRegions => {
                let mut t = <$R>::default();
                if $populated {
                    // pre-fill with the whole batch: the capacity then covers the announced batch, the spare room does not
                    for $v in batch.iter() {
                        let $r = &mut t;
                        let _ = $push;
                    }
                }
                t.reserve_regions(core::iter::once(&src));
                t
            }
        };
        let before = caps(&tgt);
        for $v in batch.iter() {
            {
                let $r = &mut tgt;
                let _ = $push;
            }
            // constant after EVERY push (a buffer that is dropped and later regrown to the same size is a reallocation too)
            assert!(same_caps(before, caps(&tgt)), "C17: CAPACITY-CHANGED while pushing exactly the announced contents");
        }
        cover!(true, "end reached");
        sym::forget((src, tgt, batch));
    }};
}

fn byte_batch() -> [Bytes<3>; 3] {
    [Bytes::any_len(2), Bytes::any_len(0), Bytes::any_len(3)]
}
fn str_batch() -> [String; 3] {
    [string_shaped(&[2, 3]), string_shaped(&[]), string_shaped(&[4])]
}

// ---- OwnedRegion<u8>
// @h prop=C17 tier=quick kind=proof inst="OwnedRegion<u8>" bounds="batch of 3 items (2, 0, 3 symbolic bytes); reserve_regions on an empty target" desc="capacities constant while the announced contents are pushed"
#[cfg_attr(kani, kani::proof, kani::unwind(10))]
pub fn c17_owned_reserve_regions() {
    presized!(OwnedRegion<u8>, How::ReserveRegions, false, byte_batch(), |r, v| r.push(v.as_slice()));
}
// @h prop=C17 tier=quick kind=proof inst="OwnedRegion<u8>" bounds="as above, target already populated with the same three items (capacity covers the batch, spare room does not)" desc="pre-sizing a populated region reserves relative to its length, not its capacity"
#[cfg_attr(kani, kani::proof, kani::unwind(10))]
pub fn c17_owned_reserve_regions_populated() {
    presized!(OwnedRegion<u8>, How::ReserveRegions, true, byte_batch(), |r, v| r.push(v.as_slice()));
}
// @h prop=C17 tier=quick kind=proof inst="OwnedRegion<u8>" bounds="batch of 3 items; target = merge_regions(source)" desc="merged region absorbs its source's contents without reallocation"
#[cfg_attr(kani, kani::proof, kani::unwind(10))]
pub fn c17_owned_merge() {
    presized!(OwnedRegion<u8>, How::MergeRegions, false, byte_batch(), |r, v| r.push(v.as_slice()));
}
// @h prop=C17 tier=quick kind=proof inst="OwnedRegion<u8> reserve_items" bounds="batch of 3 items (2, 0, 3 symbolic bytes) announced with reserve_items, on an empty and on a populated target" desc="capacities constant while the announced items are pushed"
#[cfg_attr(kani, kani::proof, kani::unwind(10))]
pub fn c17_owned_reserve_items() {
    let batch = byte_batch();
    let mut t = OwnedRegion::<u8>::default();
    let _ = t.push(batch[2].as_slice());
    let _ = t.push(batch[0].as_slice());
    t.reserve_items(batch.iter().map(|b| b.as_slice()));
    let before = caps(&t);
    for b in batch.iter() {
        let _ = t.push(b.as_slice());
    }
    assert!(same_caps(before, caps(&t)), "C17: CAPACITY-CHANGED after reserve_items");
    cover!(true, "end reached");
    sym::forget(t);
}

// ---- StringRegion
// @h prop=C17 tier=quick kind=proof inst="StringRegion" bounds="batch of 3 strings (5, 0, 4 bytes); reserve_regions / merge_regions / reserve_items" desc="capacities constant while the announced strings are pushed"
#[cfg_attr(kani, kani::proof, kani::unwind(10))]
pub fn c17_string() {
    presized!(StringRegion, How::ReserveRegions, true, str_batch(), |r, v| r.push(v.as_str()));
    presized!(StringRegion, How::MergeRegions, false, str_batch(), |r, v| r.push(v.as_str()));
    let batch = str_batch();
    let mut t = <StringRegion>::default();
    t.reserve_items(batch.iter());
    let before = caps(&t);
    for s in batch.iter() {
        let _ = t.push(s);
    }
    assert!(same_caps(before, caps(&t)), "C17: CAPACITY-CHANGED after reserve_items");
    sym::forget(t);
}

// ---- SliceRegion<MirrorRegion<u8>>
// @h prop=C17 tier=quick kind=proof inst="SliceRegion<MirrorRegion<u8>>" bounds="batch of 3 slices (2, 0, 3 elements); reserve_regions on a populated target" desc="offset vector pre-sized"
#[cfg_attr(kani, kani::proof, kani::unwind(10))]
pub fn c17_slice_reserve_regions() {
    presized!(SliceRegion<MirrorRegion<u8>>, How::ReserveRegions, true, byte_batch(), |r, v| r.push(v.as_slice()));
}
// @h prop=C17 tier=quick kind=proof inst="SliceRegion<MirrorRegion<u8>>" bounds="batch of 3 slices (2, 0, 3 elements); target = merge_regions(source)" desc="merged slice region absorbs its source's contents without reallocating its offset vector"
#[cfg_attr(kani, kani::proof, kani::unwind(10))]
pub fn c17_slice_merge() {
    presized!(SliceRegion<MirrorRegion<u8>>, How::MergeRegions, false, byte_batch(), |r, v| r.push(v.as_slice()));
}
// @h prop=C17 tier=quick kind=proof inst="SliceRegion<MirrorRegion<u8>> reserve_items" bounds="batch of 3 slices announced with reserve_items" desc="capacities constant while the announced slices are pushed"
#[cfg_attr(kani, kani::proof, kani::unwind(10))]
pub fn c17_slice_reserve_items() {
    let batch = byte_batch();
    let mut t = SliceRegion::<MirrorRegion<u8>>::default();
    t.reserve_items(batch.iter().map(|b| b.as_slice()));
    let before = caps(&t);
    for b in batch.iter() {
        let _ = t.push(b.as_slice());
    }
    assert!(same_caps(before, caps(&t)), "C17: CAPACITY-CHANGED after reserve_items");
    cover!(true, "end reached");
    sym::forget(t);
}

// ---- SliceRegion<StringRegion> (nested storage)
// @h prop=C17 tier=quick kind=proof inst="SliceRegion<StringRegion>" bounds="batch of 2 rows ([s(2),s(3)], [s(1)]); merge_regions and reserve_regions" desc="offsets and string bytes both pre-sized"
#[cfg_attr(kani, kani::proof, kani::unwind(10))]
pub fn c17_slice_of_strings() {
    let mk = || [vec![string_shaped(&[2]), string_shaped(&[3])], vec![string_shaped(&[1])]];
    presized!(SliceRegion<StringRegion>, How::MergeRegions, false, mk(), |r, v| r.push(v));
    presized!(SliceRegion<StringRegion>, How::ReserveRegions, false, mk(), |r, v| r.push(v));
}

// ---- Option / Result / Tuple
// @h prop=C17 tier=quick kind=proof inst="OptionRegion<StringRegion>" bounds="batch Some(5 bytes), None, Some(4 bytes) (skewed mixes by position); merge_regions and reserve_regions" desc="inner string storage pre-sized for the Some values only"
#[cfg_attr(kani, kani::proof, kani::unwind(10))]
pub fn c17_option() {
    let mk = || [Some(string_shaped(&[2, 3])), None, Some(string_shaped(&[4]))];
    presized!(OptionRegion<StringRegion>, How::MergeRegions, false, mk(), |r, v| r.push(v));
    presized!(OptionRegion<StringRegion>, How::ReserveRegions, true, mk(), |r, v| r.push(v));
}
// @h prop=C17 tier=quick kind=proof inst="ResultRegion<StringRegion, StringRegion>" bounds="batch Ok(5 bytes), Err(3 bytes), Err(4 bytes); merge_regions and reserve_regions" desc="both sides pre-sized"
#[cfg_attr(kani, kani::proof, kani::unwind(10))]
pub fn c17_result() {
    let mk = || -> [Result<String, String>; 3] { [Ok(string_shaped(&[2, 3])), Err(string_shaped(&[3])), Err(string_shaped(&[4]))] };
    presized!(ResultRegion<StringRegion, StringRegion>, How::MergeRegions, false, mk(), |r, v| r.push(v));
    presized!(ResultRegion<StringRegion, StringRegion>, How::ReserveRegions, false, mk(), |r, v| r.push(v));
}
// @h prop=C17 tier=quick kind=proof inst="TupleABRegion<StringRegion, OwnedRegion<u8>>" bounds="batch of 2 tuples; merge_regions and reserve_regions" desc="every field pre-sized"
#[cfg_attr(kani, kani::proof, kani::unwind(10))]
pub fn c17_tuple() {
    let mk = || [(string_shaped(&[2, 3]), Bytes::<3>::any_len(2).to_vec()), (string_shaped(&[1]), Bytes::<3>::any_len(3).to_vec())];
    presized!(TupleABRegion<StringRegion, OwnedRegion<u8>>, How::MergeRegions, false, mk(), |r, v| r.push(v));
    presized!(TupleABRegion<StringRegion, OwnedRegion<u8>>, How::ReserveRegions, false, mk(), |r, v| r.push(v));
}

// ---- Vec<u8> as region
// @h prop=C17 tier=quick kind=proof inst="Vec<u8> as region" bounds="batch of 3 symbolic elements; merge_regions, reserve_regions, reserve_items" desc="plain vector region pre-sized"
#[cfg_attr(kani, kani::proof, kani::unwind(10))]
pub fn c17_vec_region() {
    let mk = || sym::bytes::<3>();
    presized!(Vec<u8>, How::MergeRegions, false, mk(), |r, v| Push::push(r, v));
    presized!(Vec<u8>, How::ReserveRegions, true, mk(), |r, v| Push::push(r, v));
    let b = mk();
    let mut t: Vec<u8> = Vec::new();
    ReserveItems::reserve_items(&mut t, b.iter());
    let before = caps(&t);
    for x in b.iter() {
        let _ = Push::push(&mut t, x);
    }
    assert!(same_caps(before, caps(&t)), "C17: CAPACITY-CHANGED after reserve_items");
    sym::forget(t);
}

// ---- FlatStack
// @h prop=C17 tier=quick kind=proof inst="FlatStack<OwnedRegion<u8>, Vec<(usize,usize)>>::merge_capacity" bounds="source stack of 3 items (2, 0, 3 bytes); target = merge_capacity(source); the same 3 items copied" desc="index vector and region both pre-sized: no capacity changes"
#[cfg_attr(kani, kani::proof, kani::unwind(10))]
pub fn c17_flatstack_merge_capacity() {
    let batch = byte_batch();
    let mut src = FlatStack::<OwnedRegion<u8>>::default();
    for b in batch.iter() {
        src.copy(b.as_slice());
    }
    let mut tgt = FlatStack::<OwnedRegion<u8>>::merge_capacity(core::iter::once(&src));
    let mut before = [0usize; P];
    let mut n = 0;
    tgt.heap_size(|_, c| {
        if n < P {
            before[n] = c;
        }
        n += 1;
    });
    let cap_before = tgt.capacity();
    for b in batch.iter() {
        tgt.copy(b.as_slice());
    }
    let mut after = [0usize; P];
    let mut m = 0;
    tgt.heap_size(|_, c| {
        if m < P {
            after[m] = c;
        }
        m += 1;
    });
    assert!(same_caps((before, n), (after, m)), "C17: CAPACITY-CHANGED after merge_capacity");
    assert!(tgt.capacity() == cap_before && cap_before >= 3, "C17: index capacity changed or was not pre-sized");
    cover!(true, "end reached");
    sym::forget((src, tgt));
}

// ---------------------------------------------------------------------------------------------------------------
// allocator-call form (stubbed allocator entry points, see allocstub.rs)
// ---------------------------------------------------------------------------------------------------------------
use crate::allocstub::calls;

/// Vacuity guard for the stubs: an un-presized push DOES call the allocator, and the counter sees it.
// @h prop=C17 tier=quick kind=proof stubbing=yes stubs=std::alloc::alloc,alloc::alloc::realloc_nonnull inst="allocator stubs (witness)" bounds="OwnedRegion<u8>::default() + one push of 3 bytes, then 6 more bytes" desc="the counting stubs are in effect: first push = 1 call (alloc), growth 8 -> 16 = 1 call (realloc); functional reads stay correct through the stubs"
#[cfg_attr(kani, kani::proof, kani::unwind(10))]
#[cfg_attr(kani, kani::stub(std::alloc::alloc, crate::allocstub::counting_alloc))]
#[cfg_attr(kani, kani::stub(alloc::alloc::realloc_nonnull, crate::allocstub::counting_realloc))]
pub fn c17_alloc_stub_witness() {
    let a = Bytes::<3>::any_len(3);
    let b = Bytes::<6>::any_len(6);
    let mut r = OwnedRegion::<u8>::default();
    let n0 = calls();
    let ia = r.push(a.as_slice());
    assert!(calls() == n0 + 1, "C17: WITNESS-BROKEN first push of an empty region is not exactly one allocator call");
    let ib = r.push(b.as_slice());
    assert!(calls() == n0 + 2, "C17: WITNESS-BROKEN growth is not exactly one allocator call");
    assert!(r.index(ia)[2] == a.buf[2] && r.index(ib)[5] == b.buf[5] && r.index(ib).len() == 6, "C17: reads through the allocator stubs differ");
    cover!(true, "end reached");
    sym::forget(r);
}

macro_rules! no_alloc_window {
    ($R:ty, $mk:expr, |$r:ident, $v:ident| $push:expr) => {{
        let batch = $mk;
        let mut src = <$R>::default();
        for $v in batch.iter() {
            let $r = &mut src;
            let _ = $push;
        }
        let mut tgt = <$R as Region>::merge_regions(core::iter::once(&src));
        let mut tgt2 = <$R>::default();
        tgt2.reserve_regions(core::iter::once(&src));
        let n0 = calls();
        for $v in batch.iter() {
            let $r = &mut tgt;
            let _ = $push;
        }
        for $v in batch.iter() {
            let $r = &mut tgt2;
            let _ = $push;
        }
        assert!(calls() == n0, "C17: ALLOCATOR-CALLED while pushing exactly the announced plain-data contents");
        cover!(true, "end reached");
        sym::forget((src, tgt, tgt2, batch));
    }};
}

// @h prop=C17 tier=quick kind=proof stubbing=yes stubs=std::alloc::alloc,alloc::alloc::realloc_nonnull inst="OwnedRegion<u8> (allocator-call form)" bounds="batch of 3 items (2, 0, 3 symbolic bytes) pushed into merge_regions(source) and into a reserve_regions'd region" desc="the allocator is not called at all while the announced contents are pushed"
#[cfg_attr(kani, kani::proof, kani::unwind(10))]
#[cfg_attr(kani, kani::stub(std::alloc::alloc, crate::allocstub::counting_alloc))]
#[cfg_attr(kani, kani::stub(alloc::alloc::realloc_nonnull, crate::allocstub::counting_realloc))]
pub fn c17_noalloc_owned() {
    no_alloc_window!(OwnedRegion<u8>, byte_batch(), |r, v| r.push(v.as_slice()));
}

// @h prop=C17 tier=quick kind=proof stubbing=yes stubs=std::alloc::alloc,alloc::alloc::realloc_nonnull inst="SliceRegion<MirrorRegion<u8>> (allocator-call form)" bounds="batch of 3 slices (2, 0, 3 elements)" desc="the allocator is not called at all while the announced contents are pushed"
#[cfg_attr(kani, kani::proof, kani::unwind(10))]
#[cfg_attr(kani, kani::stub(std::alloc::alloc, crate::allocstub::counting_alloc))]
#[cfg_attr(kani, kani::stub(alloc::alloc::realloc_nonnull, crate::allocstub::counting_realloc))]
pub fn c17_noalloc_slice() {
    no_alloc_window!(SliceRegion<MirrorRegion<u8>>, byte_batch(), |r, v| r.push(v.as_slice()));
}

// @h prop=C17 tier=quick kind=proof stubbing=yes stubs=std::alloc::alloc,alloc::alloc::realloc_nonnull inst="StringRegion and OptionRegion<StringRegion> (allocator-call form)" bounds="batch of 3 strings (5, 0, 4 bytes) resp. Some/None/Some" desc="the allocator is not called at all while the announced contents are pushed"
#[cfg_attr(kani, kani::proof, kani::unwind(10))]
#[cfg_attr(kani, kani::stub(std::alloc::alloc, crate::allocstub::counting_alloc))]
#[cfg_attr(kani, kani::stub(alloc::alloc::realloc_nonnull, crate::allocstub::counting_realloc))]
pub fn c17_noalloc_string_option() {
    no_alloc_window!(StringRegion, str_batch(), |r, v| r.push(v.as_str()));
    let mk = || [Some(string_shaped(&[2, 3])), None, Some(string_shaped(&[4]))];
    no_alloc_window!(OptionRegion<StringRegion>, mk(), |r, v| r.push(v));
}

/// One growth step of the byte storage: from a vector with `len <= cap`, appending `k` bytes calls the allocator
/// not at all if they fit and exactly once otherwise, and then at least doubles the capacity.  By induction on this
/// step n pushes cost O(log n) allocator calls per storage.
fn growth_step(cap: usize, len: usize, k: usize) {
    use flatcontainer::impls::storage::PushStorage;
    let mut v: Vec<u8> = Vec::with_capacity(cap);
    let fill = sym::bytes::<16>();
    v.extend_from_slice(&fill[..len]);
    let cap0 = v.capacity();
    let add = sym::bytes::<8>();
    let n0 = calls();
    v.push_storage(&add[..k]);
    let n = calls() - n0;
    if len + k <= cap0 {
        assert!(n == 0 && v.capacity() == cap0, "C17: storage called the allocator although the data fits");
    } else {
        assert!(n == 1, "C17: storage growth is not exactly one allocator call");
        assert!(v.capacity() >= 2 * cap0 && v.capacity() >= len + k, "C17: storage growth does not at least double the capacity");
    }
    assert!(v.len() == len + k && v[len + k - 1] == add[k - 1], "C17: stored data differs after growth");
    sym::forget(v);
}

// @h prop=C17 tier=quick kind=proof stubbing=yes stubs=std::alloc::alloc,alloc::alloc::realloc_nonnull inst="PushStorage<&[u8]> for Vec<u8>, one growth step" bounds="(cap, len, k) in {(8,8,1), (8,5,3), (8,6,3), (16,16,4), (0,0,2)}: full, exactly fitting, overflowing by one, and empty storage; symbolic contents" desc="no allocator call if the data fits, else exactly one and capacity at least doubles (=> O(log n) calls for n pushes, by induction on this step)"
#[cfg_attr(kani, kani::proof, kani::unwind(20))]
#[cfg_attr(kani, kani::stub(std::alloc::alloc, crate::allocstub::counting_alloc))]
#[cfg_attr(kani, kani::stub(alloc::alloc::realloc_nonnull, crate::allocstub::counting_realloc))]
pub fn c17_growth_step() {
    growth_step(8, 8, 1);
    growth_step(8, 5, 3);
    growth_step(8, 6, 3);
    growth_step(16, 16, 4);
    growth_step(0, 0, 2);
    cover!(true, "end reached");
}

// @h prop=C17 tier=quick kind=proof stubbing=yes stubs=std::alloc::alloc,alloc::alloc::realloc_nonnull inst="pushes into storages that are large enough (no per-push temporaries)" bounds="OwnedRegion<u8>, StringRegion, SliceRegion<MirrorRegion<u8>>, ResultRegion<StringRegion,StringRegion>, TupleABRegion after a first push that allocated: a second, smaller item" desc="a push whose data fits the existing storage does not call the allocator at all"
#[cfg_attr(kani, kani::proof, kani::unwind(10))]
#[cfg_attr(kani, kani::stub(std::alloc::alloc, crate::allocstub::counting_alloc))]
#[cfg_attr(kani, kani::stub(alloc::alloc::realloc_nonnull, crate::allocstub::counting_realloc))]
pub fn c17_no_temporaries() {
    let a = Bytes::<3>::any_len(3);
    let b = Bytes::<3>::any_len(2);
    let s = string_shaped(&[2, 3]);
    let t = string_shaped(&[2]);
    let mut o = OwnedRegion::<u8>::default();
    let mut st = <StringRegion>::default();
    let mut sl = SliceRegion::<MirrorRegion<u8>>::default();
    let mut rr = ResultRegion::<StringRegion, StringRegion>::default();
    let mut tp = TupleABRegion::<StringRegion, OwnedRegion<u8>>::default();
    let _ = o.push(a.as_slice());
    let _ = st.push(s.as_str());
    let _ = sl.push(a.as_slice());
    let _ = rr.push(Ok::<&str, &str>(s.as_str()));
    let _ = rr.push(Err::<&str, &str>(s.as_str()));
    let _ = tp.push((s.as_str(), a.as_slice()));
    let n0 = calls();
    let _ = o.push(b.as_slice());
    let _ = st.push(t.as_str());
    let _ = sl.push(b.as_slice());
    let _ = rr.push(Ok::<&str, &str>(t.as_str()));
    let _ = rr.push(Err::<&str, &str>(t.as_str()));
    let _ = tp.push((t.as_str(), b.as_slice()));
    assert!(calls() == n0, "C17: ALLOCATOR-CALLED by a push whose data fits the existing storage");
    cover!(true, "end reached");
    sym::forget((o, st, sl, rr, tp));
}

// @h prop=C17 tier=quick kind=proof inst="OwnedRegion<u8>: owned Vec<u8> form onto an EMPTY pre-sized region" bounds="reserve_items for 3 items (2, 0, 3 bytes) on an empty region, then the items pushed as owned Vec<u8> (first push meets an empty, pre-sized storage)" desc="the reserved buffer is kept: capacities constant, whatever input form delivers the announced contents"
#[cfg_attr(kani, kani::proof, kani::unwind(10))]
pub fn c17_owned_reserve_items_vec_form() {
    let batch = byte_batch();
    let mut t = OwnedRegion::<u8>::default();
    t.reserve_items(batch.iter().map(|b| b.as_slice()));
    let before = caps(&t);
    for b in batch.iter() {
        let _ = t.push(b.to_vec());
        assert!(same_caps(before, caps(&t)), "C17: CAPACITY-CHANGED when the announced contents arrive as owned vectors");
    }
    // the same on a region that was populated and cleared (empty again, capacity retained)
    let mut u = OwnedRegion::<u8>::default();
    let _ = u.push(batch[2].as_slice());
    u.clear();
    u.reserve_items(batch.iter().map(|b| b.as_slice()));
    let before = caps(&u);
    let _ = u.push(batch[0].to_vec());
    assert!(same_caps(before, caps(&u)), "C17: CAPACITY-CHANGED on a cleared, pre-sized region");
    let _ = u.push(batch[2].to_vec());
    assert!(same_caps(before, caps(&u)), "C17: CAPACITY-CHANGED on a cleared, pre-sized region");
    cover!(true, "end reached");
    sym::forget((t, u));
}

// @h prop=C17 tier=quick kind=proof inst="Vec<u8> as region under OptionRegion and ResultRegion: reserve_items through the wrappers' filtering iterators (no useful size hint)" bounds="OptionRegion<Vec<u8>>: Some, None, Some, Some by reference and None, Some, None, Some, Some by value; ResultRegion<Vec<u8>, Vec<u8>>: Ok, Err, Ok, Ok, Err by reference and by value (symbolic elements); empty and populated targets" desc="capacities constant while exactly the announced items are pushed: the announced items are counted, not estimated from a size hint"
#[cfg_attr(kani, kani::proof, kani::unwind(10))]
pub fn c17_reserve_items_vec_under_wrappers() {
    let e = sym::bytes::<5>();
    type O = OptionRegion<Vec<u8>>;
    let items = [Some(e[0]), None, Some(e[1]), Some(e[2])];
    let mut t = O::default();
    t.reserve_items(items.iter());
    let before = caps(&t);
    for v in items.iter() {
        let _ = t.push(v);
        assert!(same_caps(before, caps(&t)), "C17: CAPACITY-CHANGED while pushing exactly the items announced to an OptionRegion over a vector");
    }
    // populated target: announce the same items again
    t.reserve_items(items.iter());
    let before = caps(&t);
    for v in items.iter() {
        let _ = t.push(v);
        assert!(same_caps(before, caps(&t)), "C17: CAPACITY-CHANGED while pushing exactly the items announced to a populated OptionRegion over a vector");
    }
    // the OWNED-item form of the announcement (a different ReserveItems impl), with a None before the Some items
    let owned = [None, Some(e[3]), None, Some(e[4]), Some(e[0])];
    let mut t2 = O::default();
    t2.reserve_items(owned.iter().copied());
    let before = caps(&t2);
    for v in owned.iter() {
        let _ = t2.push(*v);
        assert!(same_caps(before, caps(&t2)), "C17: CAPACITY-CHANGED while pushing exactly the owned items announced to an OptionRegion over a vector");
    }
    sym::forget(t2);
    type R = ResultRegion<Vec<u8>, Vec<u8>>;
    let items: [Result<u8, u8>; 5] = [Ok(e[0]), Err(e[1]), Ok(e[2]), Ok(e[3]), Err(e[4])];
    let mut r = R::default();
    r.reserve_items(items.iter());
    let before = caps(&r);
    for v in items.iter() {
        let _ = r.push(v);
        assert!(same_caps(before, caps(&r)), "C17: CAPACITY-CHANGED while pushing exactly the items announced to a ResultRegion over vectors");
    }
    let mut r2 = R::default();
    r2.reserve_items(items.iter().copied());
    let before = caps(&r2);
    for v in items.iter() {
        let _ = r2.push(*v);
        assert!(same_caps(before, caps(&r2)), "C17: CAPACITY-CHANGED while pushing exactly the owned items announced to a ResultRegion over vectors");
    }
    // an Err (resp. an Ok) FIRST: a reservation that stops at the first item of the other kind reserves nothing
    let err_first: [Result<u8, u8>; 4] = [Err(e[0]), Ok(e[1]), Ok(e[2]), Err(e[3])];
    let ok_first: [Result<u8, u8>; 4] = [Ok(e[0]), Err(e[1]), Err(e[2]), Ok(e[3])];
    let mut r3 = R::default();
    r3.reserve_items(err_first.iter().copied());
    let before = caps(&r3);
    for v in err_first.iter() {
        let _ = r3.push(*v);
        assert!(same_caps(before, caps(&r3)), "C17: CAPACITY-CHANGED while pushing an owned batch that starts with an Err");
    }
    let mut r4 = R::default();
    r4.reserve_items(ok_first.iter().copied());
    let before = caps(&r4);
    for v in ok_first.iter() {
        let _ = r4.push(*v);
        assert!(same_caps(before, caps(&r4)), "C17: CAPACITY-CHANGED while pushing an owned batch that starts with an Ok");
    }
    sym::forget((r3, r4));
    cover!(true, "end reached");
    sym::forget((t, r, r2));
}

// @h prop=C17 tier=quick kind=proof inst="SliceRegion<MirrorRegion<u8>> under OptionRegion, and directly: reserve_items with by-reference ARRAY items arriving through filtering iterators" bounds="Some([a,b]), None, Some([c,d]) announced by reference to an OptionRegion<SliceRegion<..>>; two &[u8; 2] through `.filter(|_| true)` to a SliceRegion; symbolic elements" desc="capacities constant while exactly the announced items are pushed: array items are counted like slices, whatever the iterator's size hint"
#[cfg_attr(kani, kani::proof, kani::unwind(10))]
pub fn c17_reserve_items_slice_arrays_filtered() {
    let e = sym::bytes::<4>();
    type O = OptionRegion<SliceRegion<MirrorRegion<u8>>>;
    let items: [Option<[u8; 2]>; 3] = [Some([e[0], e[1]]), None, Some([e[2], e[3]])];
    let mut t = O::default();
    t.reserve_items(items.iter());
    let before = caps(&t);
    for v in items.iter() {
        let _ = t.push(v);
        assert!(same_caps(before, caps(&t)), "C17: CAPACITY-CHANGED while pushing exactly the array items announced to an OptionRegion over a slice region");
    }
    let arrays: [[u8; 2]; 2] = [[e[0], e[1]], [e[2], e[3]]];
    let mut s = SliceRegion::<MirrorRegion<u8>>::default();
    s.reserve_items(arrays.iter().filter(|_| true));
    let before = caps(&s);
    for a in arrays.iter() {
        let _ = s.push(a);
        assert!(same_caps(before, caps(&s)), "C17: CAPACITY-CHANGED while pushing exactly the array items announced to a slice region through a filter");
    }
    cover!(true, "end reached");
    sym::forget((t, s));
}
