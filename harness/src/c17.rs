//! C17 — allocation discipline: no reallocation after pre-sizing (capacity form: every capacity reported by heap_size
//! stays constant while exactly the announced contents are pushed).
use crate::gen::{string_shaped, Bytes};
use crate::sym;
use flatcontainer::impls::tuple::TupleABRegion;
use flatcontainer::{
    FlatStack, MirrorRegion, OptionRegion, OwnedRegion, Push, Region, ReserveItems, ResultRegion, SliceRegion,
    StringRegion,
};

const P: usize = 8;

/// Snapshot of the capacities reported by `heap_size` (up to 8 pairs) and their number.
fn caps<R: Region>(r: &R) -> ([usize; P], usize) {
    let mut c = [0usize; P];
    let mut n = 0usize;
    r.heap_size(|_, cap| {
        if n < P {
            c[n] = cap;
        }
        n += 1;
    });
    (c, n)
}

fn same_caps(a: ([usize; P], usize), b: ([usize; P], usize)) -> bool {
    if a.1 != b.1 {
        return false;
    }
    let mut i = 0;
    while i < P {
        if i < a.1 && a.0[i] != b.0[i] {
            return false;
        }
        i += 1;
    }
    true
}

/// The three ways of announcing contents.
#[derive(Clone, Copy, PartialEq)]
enum How {
    ReserveRegions,
    MergeRegions,
}

/// Source region with the batch; target pre-sized from it (`how`), optionally already populated; then exactly the
/// batch is pushed and every capacity must stay what it was after pre-sizing.
macro_rules! presized {
    ($R:ty, $how:expr, $populated:expr, $mk:expr, |$r:ident, $v:ident| $push:expr) => {{
        let batch = $mk;
        let mut src = <$R>::default();
        for $v in batch.iter() {
            let $r = &mut src;
            let _ = $push;
        }
        let mut tgt = match $how {
            How::MergeRegions => <$R as Region>::merge_regions(core::iter::once(&src)),
            How::ReserveRegions => {
                let mut t = <$R>::default();
                if $populated {
                    // pre-fill with the whole batch: the capacity then covers the announced batch, the spare room does not
                    for $v in batch.iter() {
                        let $r = &mut t;
                        let _ = $push;
                    }
                }
                t.reserve_regions(core::iter::once(&src));
                t
            }
        };
        let before = caps(&tgt);
        for $v in batch.iter() {
            let $r = &mut tgt;
            let _ = $push;
        }
        let after = caps(&tgt);
        assert!(same_caps(before, after), "C17: CAPACITY-CHANGED while pushing exactly the announced contents");
        cover!(true, "end reached");
        sym::forget((src, tgt, batch));
    }};
}

fn byte_batch() -> [Bytes<3>; 3] {
    [Bytes::any_len(2), Bytes::any_len(0), Bytes::any_len(3)]
}
fn str_batch() -> [String; 3] {
    [string_shaped(&[2, 3]), string_shaped(&[]), string_shaped(&[4])]
}

// ---- OwnedRegion<u8>
// @h prop=C17 tier=quick kind=proof inst="OwnedRegion<u8>" bounds="batch of 3 items (2, 0, 3 symbolic bytes); reserve_regions on an empty target" desc="capacities constant while the announced contents are pushed"
#[cfg_attr(kani, kani::proof, kani::unwind(10))]
pub fn c17_owned_reserve_regions() {
    presized!(OwnedRegion<u8>, How::ReserveRegions, false, byte_batch(), |r, v| r.push(v.as_slice()));
}
// @h prop=C17 tier=quick kind=proof inst="OwnedRegion<u8>" bounds="as above, target already populated with the same three items (capacity covers the batch, spare room does not)" desc="pre-sizing a populated region reserves relative to its length, not its capacity"
#[cfg_attr(kani, kani::proof, kani::unwind(10))]
pub fn c17_owned_reserve_regions_populated() {
    presized!(OwnedRegion<u8>, How::ReserveRegions, true, byte_batch(), |r, v| r.push(v.as_slice()));
}
// @h prop=C17 tier=quick kind=proof inst="OwnedRegion<u8>" bounds="batch of 3 items; target = merge_regions(source)" desc="merged region absorbs its source's contents without reallocation"
#[cfg_attr(kani, kani::proof, kani::unwind(10))]
pub fn c17_owned_merge() {
    presized!(OwnedRegion<u8>, How::MergeRegions, false, byte_batch(), |r, v| r.push(v.as_slice()));
}
// @h prop=C17 tier=quick kind=proof inst="OwnedRegion<u8> reserve_items" bounds="batch of 3 items (2, 0, 3 symbolic bytes) announced with reserve_items, on an empty and on a populated target" desc="capacities constant while the announced items are pushed"
#[cfg_attr(kani, kani::proof, kani::unwind(10))]
pub fn c17_owned_reserve_items() {
    let batch = byte_batch();
    let mut t = OwnedRegion::<u8>::default();
    let _ = t.push(batch[2].as_slice());
    let _ = t.push(batch[0].as_slice());
    t.reserve_items(batch.iter().map(|b| b.as_slice()));
    let before = caps(&t);
    for b in batch.iter() {
        let _ = t.push(b.as_slice());
    }
    assert!(same_caps(before, caps(&t)), "C17: CAPACITY-CHANGED after reserve_items");
    cover!(true, "end reached");
    sym::forget(t);
}

// ---- StringRegion
// @h prop=C17 tier=quick kind=proof inst="StringRegion" bounds="batch of 3 strings (5, 0, 4 bytes); reserve_regions / merge_regions / reserve_items" desc="capacities constant while the announced strings are pushed"
#[cfg_attr(kani, kani::proof, kani::unwind(10))]
pub fn c17_string() {
    presized!(StringRegion, How::ReserveRegions, true, str_batch(), |r, v| r.push(v.as_str()));
    presized!(StringRegion, How::MergeRegions, false, str_batch(), |r, v| r.push(v.as_str()));
    let batch = str_batch();
    let mut t = <StringRegion>::default();
    t.reserve_items(batch.iter());
    let before = caps(&t);
    for s in batch.iter() {
        let _ = t.push(s);
    }
    assert!(same_caps(before, caps(&t)), "C17: CAPACITY-CHANGED after reserve_items");
    sym::forget(t);
}

// ---- SliceRegion<MirrorRegion<u8>>
// @h prop=C17 tier=quick kind=proof inst="SliceRegion<MirrorRegion<u8>>" bounds="batch of 3 slices (2, 0, 3 elements); reserve_regions on a populated target" desc="offset vector pre-sized"
#[cfg_attr(kani, kani::proof, kani::unwind(10))]
pub fn c17_slice_reserve_regions() {
    presized!(SliceRegion<MirrorRegion<u8>>, How::ReserveRegions, true, byte_batch(), |r, v| r.push(v.as_slice()));
}
// @h prop=C17 tier=quick kind=proof inst="SliceRegion<MirrorRegion<u8>>" bounds="batch of 3 slices (2, 0, 3 elements); target = merge_regions(source)" desc="merged slice region absorbs its source's contents without reallocating its offset vector"
#[cfg_attr(kani, kani::proof, kani::unwind(10))]
pub fn c17_slice_merge() {
    presized!(SliceRegion<MirrorRegion<u8>>, How::MergeRegions, false, byte_batch(), |r, v| r.push(v.as_slice()));
}
// @h prop=C17 tier=quick kind=proof inst="SliceRegion<MirrorRegion<u8>> reserve_items" bounds="batch of 3 slices announced with reserve_items" desc="capacities constant while the announced slices are pushed"
#[cfg_attr(kani, kani::proof, kani::unwind(10))]
pub fn c17_slice_reserve_items() {
    let batch = byte_batch();
    let mut t = SliceRegion::<MirrorRegion<u8>>::default();
    t.reserve_items(batch.iter().map(|b| b.as_slice()));
    let before = caps(&t);
    for b in batch.iter() {
        let _ = t.push(b.as_slice());
    }
    assert!(same_caps(before, caps(&t)), "C17: CAPACITY-CHANGED after reserve_items");
    cover!(true, "end reached");
    sym::forget(t);
}

// ---- SliceRegion<StringRegion> (nested storage)
// @h prop=C17 tier=quick kind=proof inst="SliceRegion<StringRegion>" bounds="batch of 2 rows ([s(2),s(3)], [s(1)]); merge_regions and reserve_regions" desc="offsets and string bytes both pre-sized"
#[cfg_attr(kani, kani::proof, kani::unwind(10))]
pub fn c17_slice_of_strings() {
    let mk = || [vec![string_shaped(&[2]), string_shaped(&[3])], vec![string_shaped(&[1])]];
    presized!(SliceRegion<StringRegion>, How::MergeRegions, false, mk(), |r, v| r.push(v));
    presized!(SliceRegion<StringRegion>, How::ReserveRegions, false, mk(), |r, v| r.push(v));
}

// ---- Option / Result / Tuple
// @h prop=C17 tier=quick kind=proof inst="OptionRegion<StringRegion>" bounds="batch Some(5 bytes), None, Some(4 bytes) (skewed mixes by position); merge_regions and reserve_regions" desc="inner string storage pre-sized for the Some values only"
#[cfg_attr(kani, kani::proof, kani::unwind(10))]
pub fn c17_option() {
    let mk = || [Some(string_shaped(&[2, 3])), None, Some(string_shaped(&[4]))];
    presized!(OptionRegion<StringRegion>, How::MergeRegions, false, mk(), |r, v| r.push(v));
    presized!(OptionRegion<StringRegion>, How::ReserveRegions, true, mk(), |r, v| r.push(v));
}
// @h prop=C17 tier=quick kind=proof inst="ResultRegion<StringRegion, StringRegion>" bounds="batch Ok(5 bytes), Err(3 bytes), Err(4 bytes); merge_regions and reserve_regions" desc="both sides pre-sized"
#[cfg_attr(kani, kani::proof, kani::unwind(10))]
pub fn c17_result() {
    let mk = || -> [Result<String, String>; 3] { [Ok(string_shaped(&[2, 3])), Err(string_shaped(&[3])), Err(string_shaped(&[4]))] };
    presized!(ResultRegion<StringRegion, StringRegion>, How::MergeRegions, false, mk(), |r, v| r.push(v));
    presized!(ResultRegion<StringRegion, StringRegion>, How::ReserveRegions, false, mk(), |r, v| r.push(v));
}
// @h prop=C17 tier=quick kind=proof inst="TupleABRegion<StringRegion, OwnedRegion<u8>>" bounds="batch of 2 tuples; merge_regions and reserve_regions" desc="every field pre-sized"
#[cfg_attr(kani, kani::proof, kani::unwind(10))]
pub fn c17_tuple() {
    let mk = || [(string_shaped(&[2, 3]), Bytes::<3>::any_len(2).to_vec()), (string_shaped(&[1]), Bytes::<3>::any_len(3).to_vec())];
    presized!(TupleABRegion<StringRegion, OwnedRegion<u8>>, How::MergeRegions, false, mk(), |r, v| r.push(v));
    presized!(TupleABRegion<StringRegion, OwnedRegion<u8>>, How::ReserveRegions, false, mk(), |r, v| r.push(v));
}

// ---- Vec<u8> as region
// @h prop=C17 tier=quick kind=proof inst="Vec<u8> as region" bounds="batch of 3 symbolic elements; merge_regions, reserve_regions, reserve_items" desc="plain vector region pre-sized"
#[cfg_attr(kani, kani::proof, kani::unwind(10))]
pub fn c17_vec_region() {
    let mk = || sym::bytes::<3>();
    presized!(Vec<u8>, How::MergeRegions, false, mk(), |r, v| Push::push(r, v));
    presized!(Vec<u8>, How::ReserveRegions, true, mk(), |r, v| Push::push(r, v));
    let b = mk();
    let mut t: Vec<u8> = Vec::new();
    ReserveItems::reserve_items(&mut t, b.iter());
    let before = caps(&t);
    for x in b.iter() {
        let _ = Push::push(&mut t, x);
    }
    assert!(same_caps(before, caps(&t)), "C17: CAPACITY-CHANGED after reserve_items");
    sym::forget(t);
}

// ---- FlatStack
// @h prop=C17 tier=quick kind=proof inst="FlatStack<OwnedRegion<u8>, Vec<(usize,usize)>>::merge_capacity" bounds="source stack of 3 items (2, 0, 3 bytes); target = merge_capacity(source); the same 3 items copied" desc="index vector and region both pre-sized: no capacity changes"
#[cfg_attr(kani, kani::proof, kani::unwind(10))]
pub fn c17_flatstack_merge_capacity() {
    let batch = byte_batch();
    let mut src = FlatStack::<OwnedRegion<u8>>::default();
    for b in batch.iter() {
        src.copy(b.as_slice());
    }
    let mut tgt = FlatStack::<OwnedRegion<u8>>::merge_capacity(core::iter::once(&src));
    let mut before = [0usize; P];
    let mut n = 0;
    tgt.heap_size(|_, c| {
        if n < P {
            before[n] = c;
        }
        n += 1;
    });
    let cap_before = tgt.capacity();
    for b in batch.iter() {
        tgt.copy(b.as_slice());
    }
    let mut after = [0usize; P];
    let mut m = 0;
    tgt.heap_size(|_, c| {
        if m < P {
            after[m] = c;
        }
        m += 1;
    });
    assert!(same_caps((before, n), (after, m)), "C17: CAPACITY-CHANGED after merge_capacity");
    assert!(tgt.capacity() == cap_before && cap_before >= 3, "C17: index capacity changed or was not pre-sized");
    cover!(true, "end reached");
    sym::forget((src, tgt));
}
