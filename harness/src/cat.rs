//! The typed catalogue of region compositions (DESIGN.md §2.1).  Every entry names one concrete instantiation of the
//! crate's generic code, a bounded symbolic value generator for it, its canonical push form and an element-for-element
//! comparison of a read item with the model value.
use crate::gen::{same_bytes, same_str, Bytes};
use crate::sym;
use flatcontainer::impls::deduplicate::{CollapseSequence, ConsecutiveIndexPairs};
use flatcontainer::impls::index::{IndexList, IndexOptimized};
use flatcontainer::impls::tuple::TupleABRegion;
use flatcontainer::{
    ColumnsRegion, IntoOwned, MirrorRegion, OptionRegion, OwnedRegion, Push, Region, ResultRegion, SliceRegion,
    StringRegion,
};

pub type Idx<C> = <<C as Cat>::R as Region>::Index;

/// Which aspects of a read item a comparison covers.  They are separate harnesses on purpose: the formulas compose
/// super-linearly, so three small queries are far cheaper than one big one.
#[derive(Clone, Copy, PartialEq)]
pub enum Asp {
    /// length + one symbolic position
    Light,
    /// Light + emptiness + iteration (every element, and the end)
    Iter,
    /// Light + owned conversion
    Owned,
}
impl Asp {
    pub fn iter(self) -> bool {
        self == Asp::Iter
    }
    pub fn owned(self) -> bool {
        self == Asp::Owned
    }
}

/// One catalogue entry.
pub trait Cat {
    /// The region instantiation.
    type R: Region;
    /// The model (owned) value.
    type V;
    /// Bounded symbolic value.
    fn any() -> Self::V;
    /// Push in the canonical form.
    fn push(r: &mut Self::R, v: &Self::V) -> Idx<Self>;
    /// Assert that the item read at `idx` describes `v`: light = length + one symbolic position; full = additionally
    /// emptiness, iteration and owned conversion.
    fn check(r: &Self::R, idx: Idx<Self>, v: &Self::V, asp: Asp);
    /// Equality of model values as the region's element comparison sees it.
    fn model_eq(a: &Self::V, b: &Self::V) -> bool;
    /// Lower bound on the bytes the region must account as used for storing `v` (payload + index entries).
    fn payload(v: &Self::V) -> usize;
    /// Index equality.
    fn idx_eq(a: Idx<Self>, b: Idx<Self>) -> bool;
    /// The empty item of this type (zero elements / zero bytes), where there is one.
    fn empty() -> Option<Self::V> {
        None
    }
}

// ---------------------------------------------------------------------------------------------------------------
// terminals
// ---------------------------------------------------------------------------------------------------------------
macro_rules! mirror_cat {
    ($name:ident, $t:ty, $any:expr, $eq:expr) => {
        pub struct $name;
        impl Cat for $name {
            type R = MirrorRegion<$t>;
            type V = $t;
            fn any() -> $t {
                $any
            }
            fn push(r: &mut Self::R, v: &$t) -> $t {
                r.push(*v)
            }
            fn check(r: &Self::R, idx: $t, v: &$t, asp: Asp) {
                let item = r.index(idx);
                let eq: fn(&$t, &$t) -> bool = $eq;
                assert!(eq(&item, v), "ITEM: mirrored value differs from the pushed value");
                if asp.owned() {
                    assert!(eq(&item.into_owned(), v), "ITEM: into_owned differs from the pushed value");
                }
            }
            fn model_eq(a: &$t, b: &$t) -> bool {
                a == b
            }
            fn payload(_v: &$t) -> usize {
                0
            }
            fn idx_eq(a: $t, b: $t) -> bool {
                let eq: fn(&$t, &$t) -> bool = $eq;
                eq(&a, &b)
            }
        }
    };
}
mirror_cat!(MirU8, u8, sym::u8(), |a, b| a == b);
mirror_cat!(MirU16, u16, sym::u16(), |a, b| a == b);
mirror_cat!(MirUsize, usize, sym::usize(), |a, b| a == b);
mirror_cat!(MirI128, i128, sym::i128(), |a, b| a == b);
mirror_cat!(MirChar, char, sym::char(), |a, b| a == b);
mirror_cat!(MirUnit, (), (), |a, b| a == b);
mirror_cat!(MirF64, f64, sym::f64_bits(), |a, b| a.to_bits() == b.to_bits());

/// Bound on element counts of symbolic slices.
pub const N: usize = 3;

fn check_bytes(item: &[u8], v: &Bytes<N>, asp: Asp) {
    assert!(item.len() == v.len, "ITEM: length differs from the pushed value");
    assert!(same_bytes(item, v.as_slice()), "ITEM: element differs from the pushed value");
    if asp.owned() {
        let owned: Vec<u8> = item.into_owned();
        assert!(owned.len() == v.len, "ITEM: into_owned length differs");
        assert!(same_bytes(&owned, v.as_slice()), "ITEM: into_owned element differs");
        sym::forget(owned);
    }
    if asp.iter() {
        assert!(item.is_empty() == (v.len == 0), "ITEM: is_empty disagrees with the pushed value");
        let mut it = item.iter();
        let mut k = 0;
        while k < N {
            let x = it.next();
            if k < v.len {
                assert!(x == Some(&v.buf[k]), "ITEM: iteration yields a different element");
            } else {
                assert!(x.is_none(), "ITEM: iteration yields too many elements");
            }
            k += 1;
        }
    }
}

pub struct OwnU8;
impl Cat for OwnU8 {
    type R = OwnedRegion<u8>;
    type V = Bytes<N>;
    fn empty() -> Option<Bytes<N>> {
        Some(Bytes::any_len(0))
    }
    fn any() -> Bytes<N> {
        Bytes::any()
    }
    fn push(r: &mut Self::R, v: &Bytes<N>) -> (usize, usize) {
        r.push(v.as_slice())
    }
    fn check(r: &Self::R, idx: (usize, usize), v: &Bytes<N>, asp: Asp) {
        check_bytes(r.index(idx), v, asp)
    }
    fn model_eq(a: &Bytes<N>, b: &Bytes<N>) -> bool {
        a.as_slice() == b.as_slice()
    }
    fn payload(v: &Bytes<N>) -> usize {
        v.len
    }
    fn idx_eq(a: (usize, usize), b: (usize, usize)) -> bool {
        a == b
    }
}

/// Zero-sized elements: only the count is stored.
pub struct OwnUnit;
impl Cat for OwnUnit {
    type R = OwnedRegion<()>;
    type V = usize;
    fn any() -> usize {
        sym::small(N)
    }
    fn push(r: &mut Self::R, v: &usize) -> (usize, usize) {
        const U: [(); N] = [(); N];
        r.push(&U[..*v])
    }
    fn check(r: &Self::R, idx: (usize, usize), v: &usize, asp: Asp) {
        let item = r.index(idx);
        assert!(item.len() == *v, "ITEM: length differs from the pushed value");
        if asp.iter() {
            assert!(item.is_empty() == (*v == 0), "ITEM: is_empty disagrees with the pushed value");
            assert!(item.iter().count() == *v, "ITEM: iteration count differs");
        }
    }
    fn model_eq(a: &usize, b: &usize) -> bool {
        a == b
    }
    fn payload(_v: &usize) -> usize {
        0
    }
    fn idx_eq(a: (usize, usize), b: (usize, usize)) -> bool {
        a == b
    }
}

fn check_str(item: &str, v: &str, asp: Asp) {
    assert!(item.len() == v.len(), "ITEM: string length differs from the pushed string");
    assert!(same_str(item, v), "ITEM: string byte differs from the pushed string");
    if asp.iter() {
        assert!(item.is_empty() == v.is_empty(), "ITEM: is_empty disagrees with the pushed string");
    }
    if asp.owned() {
        let owned: String = item.into_owned();
        assert!(same_str(&owned, v), "ITEM: into_owned differs from the pushed string");
        sym::forget(owned);
    }
}

/// Symbolic strings: concrete UTF-8 shape from the rotation `gen::STR_SHAPES`, symbolic contents.
pub fn any_string() -> String {
    crate::gen::string_next()
}

pub struct Str;
impl Cat for Str {
    type R = StringRegion;
    type V = String;
    fn empty() -> Option<String> {
        Some(String::new())
    }
    fn any() -> String {
        any_string()
    }
    fn push(r: &mut Self::R, v: &String) -> (usize, usize) {
        r.push(v.as_str())
    }
    fn check(r: &Self::R, idx: (usize, usize), v: &String, asp: Asp) {
        check_str(r.index(idx), v, asp)
    }
    fn model_eq(a: &String, b: &String) -> bool {
        a == b
    }
    fn payload(v: &String) -> usize {
        v.len()
    }
    fn idx_eq(a: (usize, usize), b: (usize, usize)) -> bool {
        a == b
    }
}

/// `Vec<u8>` used directly as a region (one element per item).
pub struct VecU8;
impl Cat for VecU8 {
    type R = Vec<u8>;
    type V = u8;
    fn any() -> u8 {
        sym::u8()
    }
    fn push(r: &mut Self::R, v: &u8) -> usize {
        Push::push(r, *v)
    }
    fn check(r: &Self::R, idx: usize, v: &u8, asp: Asp) {
        let item = Region::index(r, idx);
        assert!(*item == *v, "ITEM: element differs from the pushed value");
        if asp.owned() {
            assert!(item.into_owned() == *v, "ITEM: into_owned differs from the pushed value");
        }
    }
    fn model_eq(a: &u8, b: &u8) -> bool {
        a == b
    }
    fn payload(_v: &u8) -> usize {
        1
    }
    fn idx_eq(a: usize, b: usize) -> bool {
        a == b
    }
}

// ---------------------------------------------------------------------------------------------------------------
// fan-out
// ---------------------------------------------------------------------------------------------------------------
pub struct OptStr;
impl Cat for OptStr {
    type R = OptionRegion<StringRegion>;
    type V = Option<String>;
    fn any() -> Option<String> {
        let s = any_string();
        if sym::bool() {
            Some(s)
        } else {
            None
        }
    }
    fn push(r: &mut Self::R, v: &Option<String>) -> Option<(usize, usize)> {
        r.push(v.as_ref().map(|s| s.as_str()))
    }
    fn check(r: &Self::R, idx: Option<(usize, usize)>, v: &Option<String>, asp: Asp) {
        match (r.index(idx), v) {
            (Some(item), Some(s)) => check_str(item, s, asp),
            (None, None) => {}
            _ => assert!(false, "ITEM: Option variant differs from the pushed value"),
        }
    }
    fn model_eq(a: &Option<String>, b: &Option<String>) -> bool {
        a == b
    }
    fn payload(v: &Option<String>) -> usize {
        v.as_ref().map(|s| s.len()).unwrap_or(0)
    }
    fn idx_eq(a: Option<(usize, usize)>, b: Option<(usize, usize)>) -> bool {
        a == b
    }
}

pub struct ResStrU8;
impl Cat for ResStrU8 {
    type R = ResultRegion<StringRegion, MirrorRegion<u8>>;
    type V = Result<String, u8>;
    fn any() -> Result<String, u8> {
        let s = any_string();
        let e = sym::u8();
        if sym::bool() {
            Ok(s)
        } else {
            Err(e)
        }
    }
    fn push(r: &mut Self::R, v: &Result<String, u8>) -> Result<(usize, usize), u8> {
        match v {
            Ok(s) => r.push(Ok::<&str, u8>(s.as_str())),
            Err(e) => r.push(Err::<&str, u8>(*e)),
        }
    }
    fn check(r: &Self::R, idx: Result<(usize, usize), u8>, v: &Result<String, u8>, asp: Asp) {
        match (r.index(idx), v) {
            (Ok(item), Ok(s)) => check_str(item, s, asp),
            (Err(item), Err(e)) => assert!(item == *e, "ITEM: Err payload differs from the pushed value"),
            _ => assert!(false, "ITEM: Result variant differs from the pushed value"),
        }
    }
    fn model_eq(a: &Result<String, u8>, b: &Result<String, u8>) -> bool {
        a == b
    }
    fn payload(v: &Result<String, u8>) -> usize {
        v.as_ref().map(|s| s.len()).unwrap_or(0)
    }
    fn idx_eq(a: Result<(usize, usize), u8>, b: Result<(usize, usize), u8>) -> bool {
        a == b
    }
}

pub struct TupStrU16;
impl Cat for TupStrU16 {
    type R = TupleABRegion<StringRegion, MirrorRegion<u16>>;
    type V = (String, u16);
    fn any() -> (String, u16) {
        (any_string(), sym::u16())
    }
    fn push(r: &mut Self::R, v: &(String, u16)) -> ((usize, usize), u16) {
        r.push((v.0.as_str(), v.1))
    }
    fn check(r: &Self::R, idx: ((usize, usize), u16), v: &(String, u16), asp: Asp) {
        let (a, b) = r.index(idx);
        check_str(a, &v.0, asp);
        assert!(b == v.1, "ITEM: second tuple field differs from the pushed value");
    }
    fn model_eq(a: &(String, u16), b: &(String, u16)) -> bool {
        a == b
    }
    fn payload(v: &(String, u16)) -> usize {
        v.0.len()
    }
    fn idx_eq(a: ((usize, usize), u16), b: ((usize, usize), u16)) -> bool {
        a == b
    }
}

/// Both sides keep state (the `Err` side of `ResStrU8` is a stateless mirror region: what `ResultRegion` does to its
/// `errs` half in `clear`, `clone_from`, `reserve_*`, `merge_regions` would go unobserved there).
pub struct ResOwnOwn;
impl Cat for ResOwnOwn {
    type R = ResultRegion<OwnedRegion<u8>, OwnedRegion<u8>>;
    type V = Result<Bytes<N>, Bytes<N>>;
    fn any() -> Self::V {
        let b = Bytes::any();
        if sym::bool() {
            Ok(b)
        } else {
            Err(b)
        }
    }
    fn push(r: &mut Self::R, v: &Self::V) -> Result<(usize, usize), (usize, usize)> {
        match v {
            Ok(b) => r.push(Ok::<&[u8], &[u8]>(b.as_slice())),
            Err(b) => r.push(Err::<&[u8], &[u8]>(b.as_slice())),
        }
    }
    fn check(r: &Self::R, idx: Result<(usize, usize), (usize, usize)>, v: &Self::V, asp: Asp) {
        match (r.index(idx), v) {
            (Ok(item), Ok(b)) => check_bytes(item, b, asp),
            (Err(item), Err(b)) => check_bytes(item, b, asp),
            _ => assert!(false, "ITEM: Result variant differs from the pushed value"),
        }
    }
    fn model_eq(a: &Self::V, b: &Self::V) -> bool {
        match (a, b) {
            (Ok(a), Ok(b)) | (Err(a), Err(b)) => a.as_slice() == b.as_slice(),
            _ => false,
        }
    }
    fn payload(v: &Self::V) -> usize {
        match v {
            Ok(b) | Err(b) => b.len,
        }
    }
    fn idx_eq(a: Result<(usize, usize), (usize, usize)>, b: Result<(usize, usize), (usize, usize)>) -> bool {
        a == b
    }
}

/// Both halves keep state (see `ResOwnOwn`).
pub struct TupOwnOwn;
impl Cat for TupOwnOwn {
    type R = TupleABRegion<OwnedRegion<u8>, OwnedRegion<u8>>;
    type V = (Bytes<N>, Bytes<N>);
    fn any() -> Self::V {
        (Bytes::any(), Bytes::any())
    }
    fn push(r: &mut Self::R, v: &Self::V) -> ((usize, usize), (usize, usize)) {
        r.push((v.0.as_slice(), v.1.as_slice()))
    }
    fn check(r: &Self::R, idx: ((usize, usize), (usize, usize)), v: &Self::V, asp: Asp) {
        let (a, b) = r.index(idx);
        check_bytes(a, &v.0, asp);
        check_bytes(b, &v.1, asp);
    }
    fn model_eq(a: &Self::V, b: &Self::V) -> bool {
        a.0.as_slice() == b.0.as_slice() && a.1.as_slice() == b.1.as_slice()
    }
    fn payload(v: &Self::V) -> usize {
        v.0.len + v.1.len
    }
    fn idx_eq(a: ((usize, usize), (usize, usize)), b: ((usize, usize), (usize, usize))) -> bool {
        a == b
    }
}

/// Generic slice-of-bytes check for `ReadSlice` over a `MirrorRegion<u8>`.
macro_rules! check_read_slice_u8 {
    ($item:expr, $v:expr, $asp:expr) => {{
        let item = $item;
        let v: &Bytes<N> = $v;
        assert!(item.len() == v.len, "ITEM: slice length differs from the pushed value");
        if v.len > 0 {
            let i = sym::usize();
            sym::assume(i < v.len);
            assert!(item.get(i) == v.buf[i], "ITEM: slice element differs from the pushed value");
        }
        if $asp.iter() {
            assert!(item.is_empty() == (v.len == 0), "ITEM: is_empty disagrees with the pushed value");
            let mut it = item.iter();
            let mut k = 0;
            while k < N {
                let x = it.next();
                if k < v.len {
                    assert!(x == Some(v.buf[k]), "ITEM: iteration yields a different element");
                } else {
                    assert!(x.is_none(), "ITEM: iteration yields too many elements");
                }
                k += 1;
            }
        }
        if $asp.owned() {
            let owned: Vec<u8> = item.into_owned();
            assert!(owned.len() == v.len, "ITEM: into_owned length differs");
            assert!(same_bytes(&owned, v.as_slice()), "ITEM: into_owned element differs");
            sym::forget(owned);
        }
    }};
}

pub struct SliceU8;
impl Cat for SliceU8 {
    type R = SliceRegion<MirrorRegion<u8>>;
    type V = Bytes<N>;
    fn empty() -> Option<Bytes<N>> {
        Some(Bytes::any_len(0))
    }
    fn any() -> Bytes<N> {
        Bytes::any()
    }
    fn push(r: &mut Self::R, v: &Bytes<N>) -> (usize, usize) {
        r.push(v.as_slice())
    }
    fn check(r: &Self::R, idx: (usize, usize), v: &Bytes<N>, asp: Asp) {
        check_read_slice_u8!(r.index(idx), v, asp);
    }
    fn model_eq(a: &Bytes<N>, b: &Bytes<N>) -> bool {
        a.as_slice() == b.as_slice()
    }
    fn payload(v: &Bytes<N>) -> usize {
        v.len * core::mem::size_of::<u8>()
    }
    fn idx_eq(a: (usize, usize), b: (usize, usize)) -> bool {
        a == b
    }
}

/// A row of up to 2 symbolic strings.
#[derive(Clone, PartialEq)]
pub struct StrRow {
    pub s: [String; 2],
    pub len: usize,
}
impl StrRow {
    pub fn any() -> Self {
        let s = [crate::gen::string_short(), crate::gen::string_short()];
        let len = crate::gen::len_next(2);
        StrRow { s, len }
    }
    pub fn as_slice(&self) -> &[String] {
        &self.s[..self.len]
    }
    pub fn bytes(&self) -> usize {
        let mut n = 0;
        let mut i = 0;
        while i < self.len {
            n += self.s[i].len();
            i += 1;
        }
        n
    }
    pub fn eq_row(&self, o: &StrRow) -> bool {
        self.as_slice() == o.as_slice()
    }
}

macro_rules! check_str_row {
    ($item:expr, $v:expr, $asp:expr) => {{
        let item = $item;
        let v: &StrRow = $v;
        assert!(item.len() == v.len, "ITEM: row length differs from the pushed value");
        if v.len > 0 {
            let i = sym::usize();
            sym::assume(i < v.len);
            check_str(item.get(i), &v.s[i], Asp::Light);
        }
        if $asp.iter() {
            assert!(item.is_empty() == (v.len == 0), "ITEM: is_empty disagrees with the pushed value");
            let mut it = item.iter();
            let mut k = 0;
            while k < 2 {
                let x = it.next();
                if k < v.len {
                    match x {
                        Some(s) => check_str(s, &v.s[k], Asp::Light),
                        None => assert!(false, "ITEM: iteration ends early"),
                    }
                } else {
                    assert!(x.is_none(), "ITEM: iteration yields too many elements");
                }
                k += 1;
            }
        }
        if $asp.owned() {
            let owned: Vec<String> = item.into_owned();
            assert!(owned.len() == v.len, "ITEM: into_owned length differs");
            if v.len > 0 {
                let i = sym::usize();
                sym::assume(i < v.len);
                assert!(same_str(&owned[i], &v.s[i]), "ITEM: into_owned string differs");
            }
            sym::forget(owned);
        }
    }};
}

pub struct SliceStr;
impl Cat for SliceStr {
    type R = SliceRegion<StringRegion>;
    type V = StrRow;
    fn empty() -> Option<StrRow> {
        Some(StrRow { s: [String::new(), String::new()], len: 0 })
    }
    fn any() -> StrRow {
        StrRow::any()
    }
    fn push(r: &mut Self::R, v: &StrRow) -> (usize, usize) {
        r.push(v.as_slice())
    }
    fn check(r: &Self::R, idx: (usize, usize), v: &StrRow, asp: Asp) {
        check_str_row!(r.index(idx), v, asp);
    }
    fn model_eq(a: &StrRow, b: &StrRow) -> bool {
        a.eq_row(b)
    }
    fn payload(v: &StrRow) -> usize {
        v.bytes() + v.len * core::mem::size_of::<(usize, usize)>()
    }
    fn idx_eq(a: (usize, usize), b: (usize, usize)) -> bool {
        a == b
    }
}

/// Slice of strings, strings dense-indexed, both offset lists stride-optimised.
pub struct SliceCipStr;
impl Cat for SliceCipStr {
    type R = SliceRegion<ConsecutiveIndexPairs<StringRegion, IndexOptimized>, IndexOptimized>;
    type V = StrRow;
    fn empty() -> Option<StrRow> {
        Some(StrRow { s: [String::new(), String::new()], len: 0 })
    }
    fn any() -> StrRow {
        StrRow::any()
    }
    fn push(r: &mut Self::R, v: &StrRow) -> (usize, usize) {
        r.push(v.as_slice())
    }
    fn check(r: &Self::R, idx: (usize, usize), v: &StrRow, asp: Asp) {
        check_str_row!(r.index(idx), v, asp);
    }
    fn model_eq(a: &StrRow, b: &StrRow) -> bool {
        a.eq_row(b)
    }
    fn payload(v: &StrRow) -> usize {
        v.bytes()
    }
    fn idx_eq(a: (usize, usize), b: (usize, usize)) -> bool {
        a == b
    }
}

/// Ragged nested slices: up to 2 rows of up to 2 bytes.
#[derive(Clone)]
pub struct Rows {
    pub rows: [Bytes<2>; 2],
    pub len: usize,
}
impl Rows {
    pub fn any() -> Self {
        Rows { rows: [Bytes::any_len(crate::gen::len_next(2)), Bytes::any_len(crate::gen::len_next(2))], len: crate::gen::len_next(2) }
    }
    pub fn to_vecs(&self) -> Vec<Vec<u8>> {
        let mut out = Vec::with_capacity(2);
        let mut i = 0;
        while i < self.len {
            out.push(self.rows[i].to_vec());
            i += 1;
        }
        out
    }
}

pub struct SliceSliceU8;
impl Cat for SliceSliceU8 {
    type R = SliceRegion<SliceRegion<MirrorRegion<u8>>>;
    type V = Rows;
    fn empty() -> Option<Rows> {
        Some(Rows { rows: [Bytes::any_len(0), Bytes::any_len(0)], len: 0 })
    }
    fn any() -> Rows {
        Rows::any()
    }
    fn push(r: &mut Self::R, v: &Rows) -> (usize, usize) {
        let vs = v.to_vecs();
        r.push(&vs)
    }
    fn check(r: &Self::R, idx: (usize, usize), v: &Rows, asp: Asp) {
        let item = r.index(idx);
        assert!(item.len() == v.len, "ITEM: outer length differs from the pushed value");
        if v.len > 0 {
            let i = sym::usize();
            sym::assume(i < v.len);
            let inner = item.get(i);
            let row = &v.rows[i];
            assert!(inner.len() == row.len, "ITEM: inner length differs from the pushed value");
            if row.len > 0 {
                let j = sym::usize();
                sym::assume(j < row.len);
                assert!(inner.get(j) == row.buf[j], "ITEM: nested element differs from the pushed value");
            }
        }
        if asp.iter() {
            assert!(item.is_empty() == (v.len == 0), "ITEM: is_empty disagrees with the pushed value");
            assert!(item.iter().count() == v.len, "ITEM: iteration count differs");
        }
        if asp.owned() {
            let owned: Vec<Vec<u8>> = item.into_owned();
            assert!(owned.len() == v.len, "ITEM: into_owned length differs");
            if v.len > 0 {
                let i = sym::usize();
                sym::assume(i < v.len);
                assert!(owned[i].len() == v.rows[i].len, "ITEM: into_owned inner length differs");
            }
            sym::forget(owned);
        }
    }
    fn model_eq(a: &Rows, b: &Rows) -> bool {
        if a.len != b.len {
            return false;
        }
        let mut i = 0;
        while i < a.len {
            if a.rows[i].as_slice() != b.rows[i].as_slice() {
                return false;
            }
            i += 1;
        }
        true
    }
    fn payload(v: &Rows) -> usize {
        let mut n = v.len * core::mem::size_of::<(usize, usize)>();
        let mut i = 0;
        while i < v.len {
            n += v.rows[i].len;
            i += 1;
        }
        n
    }
    fn idx_eq(a: (usize, usize), b: (usize, usize)) -> bool {
        a == b
    }
}

macro_rules! check_columns_u8 {
    ($item:expr, $v:expr, $asp:expr) => {{
        let item = $item;
        let v: &Bytes<N> = $v;
        assert!(item.len() == v.len, "ITEM: row length differs from the pushed row");
        if v.len > 0 {
            let i = sym::usize();
            sym::assume(i < v.len);
            assert!(item.get(i) == v.buf[i], "ITEM: row cell differs from the pushed row");
        }
        if $asp.iter() {
            assert!(item.is_empty() == (v.len == 0), "ITEM: is_empty disagrees with the pushed row");
            let mut it = item.iter();
            let mut k = 0;
            while k < N {
                let x = it.next();
                if k < v.len {
                    assert!(x == Some(v.buf[k]), "ITEM: row iteration yields a different cell");
                } else {
                    assert!(x.is_none(), "ITEM: row iteration yields too many cells");
                }
                k += 1;
            }
        }
        if $asp.owned() {
            let owned: Vec<u8> = item.into_owned();
            assert!(owned.len() == v.len, "ITEM: into_owned length differs");
            assert!(same_bytes(&owned, v.as_slice()), "ITEM: into_owned cell differs");
            sym::forget(owned);
        }
    }};
}

pub struct ColU8;
impl Cat for ColU8 {
    type R = ColumnsRegion<MirrorRegion<u8>>;
    type V = Bytes<N>;
    fn empty() -> Option<Bytes<N>> {
        Some(Bytes::any_len(0))
    }
    fn any() -> Bytes<N> {
        Bytes::any_len(crate::gen::len3_next())
    }
    fn push(r: &mut Self::R, v: &Bytes<N>) -> usize {
        r.push(v.as_slice())
    }
    fn check(r: &Self::R, idx: usize, v: &Bytes<N>, asp: Asp) {
        check_columns_u8!(r.index(idx), v, asp);
    }
    fn model_eq(a: &Bytes<N>, b: &Bytes<N>) -> bool {
        a.as_slice() == b.as_slice()
    }
    fn payload(v: &Bytes<N>) -> usize {
        v.len
    }
    fn idx_eq(a: usize, b: usize) -> bool {
        a == b
    }
}

/// Columns with a plain vector as offset container.
pub struct ColU8Vec;
impl Cat for ColU8Vec {
    type R = ColumnsRegion<MirrorRegion<u8>, Vec<usize>>;
    type V = Bytes<N>;
    fn empty() -> Option<Bytes<N>> {
        Some(Bytes::any_len(0))
    }
    fn any() -> Bytes<N> {
        Bytes::any_len(crate::gen::len3_next())
    }
    fn push(r: &mut Self::R, v: &Bytes<N>) -> usize {
        r.push(v.as_slice())
    }
    fn check(r: &Self::R, idx: usize, v: &Bytes<N>, asp: Asp) {
        check_columns_u8!(r.index(idx), v, asp);
    }
    fn model_eq(a: &Bytes<N>, b: &Bytes<N>) -> bool {
        a.as_slice() == b.as_slice()
    }
    fn payload(v: &Bytes<N>) -> usize {
        v.len + core::mem::size_of::<usize>()
    }
    fn idx_eq(a: usize, b: usize) -> bool {
        a == b
    }
}

macro_rules! columns_str_cat {
    ($name:ident, $r:ty) => {
        pub struct $name;
        impl Cat for $name {
            type R = $r;
            type V = StrRow;
            fn empty() -> Option<StrRow> {
                Some(StrRow { s: [String::new(), String::new()], len: 0 })
            }
            fn any() -> StrRow {
                StrRow::any()
            }
            fn push(r: &mut Self::R, v: &StrRow) -> usize {
                r.push(v.as_slice())
            }
            fn check(r: &Self::R, idx: usize, v: &StrRow, asp: Asp) {
                let item = r.index(idx);
                assert!(item.len() == v.len, "ITEM: row length differs from the pushed row");
                if v.len > 0 {
                    let i = sym::usize();
                    sym::assume(i < v.len);
                    check_str(item.get(i), &v.s[i], Asp::Light);
                }
                if asp.iter() {
                    assert!(item.is_empty() == (v.len == 0), "ITEM: is_empty disagrees with the pushed row");
                    assert!(item.iter().count() == v.len, "ITEM: row iteration count differs");
                }
                if asp.owned() {
                    let owned: Vec<String> = item.into_owned();
                    assert!(owned.len() == v.len, "ITEM: into_owned length differs");
                    sym::forget(owned);
                }
            }
            fn model_eq(a: &StrRow, b: &StrRow) -> bool {
                a.eq_row(b)
            }
            fn payload(v: &StrRow) -> usize {
                v.bytes()
            }
            fn idx_eq(a: usize, b: usize) -> bool {
                a == b
            }
        }
    };
}
columns_str_cat!(ColCipStr, ColumnsRegion<ConsecutiveIndexPairs<StringRegion>>);
columns_str_cat!(ColCollapseCipStr, ColumnsRegion<CollapseSequence<ConsecutiveIndexPairs<StringRegion>>>);

// ---------------------------------------------------------------------------------------------------------------
// wrappers
// ---------------------------------------------------------------------------------------------------------------
macro_rules! bytes_wrapper_cat {
    ($name:ident, $r:ty, $idx:ty) => {
        pub struct $name;
        impl Cat for $name {
            type R = $r;
            type V = Bytes<N>;
            fn empty() -> Option<Bytes<N>> {
                Some(Bytes::any_len(0))
            }
            fn any() -> Bytes<N> {
                Bytes::any()
            }
            fn push(r: &mut Self::R, v: &Bytes<N>) -> $idx {
                r.push(v.as_slice())
            }
            fn check(r: &Self::R, idx: $idx, v: &Bytes<N>, asp: Asp) {
                check_bytes(r.index(idx), v, asp)
            }
            fn model_eq(a: &Bytes<N>, b: &Bytes<N>) -> bool {
                a.as_slice() == b.as_slice()
            }
            fn payload(v: &Bytes<N>) -> usize {
                v.len
            }
            fn idx_eq(a: $idx, b: $idx) -> bool {
                a == b
            }
        }
    };
}
bytes_wrapper_cat!(CollapseOwn, CollapseSequence<OwnedRegion<u8>>, (usize, usize));
bytes_wrapper_cat!(CipOwnOpt, ConsecutiveIndexPairs<OwnedRegion<u8>, IndexOptimized>, usize);
bytes_wrapper_cat!(CipOwnVec, ConsecutiveIndexPairs<OwnedRegion<u8>, Vec<usize>>, usize);
bytes_wrapper_cat!(CipOwnList, ConsecutiveIndexPairs<OwnedRegion<u8>, IndexList<Vec<u32>, Vec<u64>>>, usize);

macro_rules! str_wrapper_cat {
    ($name:ident, $r:ty, $idx:ty) => {
        pub struct $name;
        impl Cat for $name {
            type R = $r;
            type V = String;
            fn empty() -> Option<String> {
                Some(String::new())
            }
            fn any() -> String {
                any_string()
            }
            fn push(r: &mut Self::R, v: &String) -> $idx {
                r.push(v.as_str())
            }
            fn check(r: &Self::R, idx: $idx, v: &String, asp: Asp) {
                check_str(r.index(idx), v, asp)
            }
            fn model_eq(a: &String, b: &String) -> bool {
                a == b
            }
            fn payload(v: &String) -> usize {
                v.len()
            }
            fn idx_eq(a: $idx, b: $idx) -> bool {
                a == b
            }
        }
    };
}
str_wrapper_cat!(CollapseStr, CollapseSequence<StringRegion>, (usize, usize));
str_wrapper_cat!(CipStr, ConsecutiveIndexPairs<StringRegion>, usize);
str_wrapper_cat!(CollapseCipStr, CollapseSequence<ConsecutiveIndexPairs<StringRegion>>, usize);

pub struct CollapseF64;
impl Cat for CollapseF64 {
    type R = CollapseSequence<MirrorRegion<f64>>;
    type V = f64;
    fn any() -> f64 {
        sym::f64_bits()
    }
    fn push(r: &mut Self::R, v: &f64) -> f64 {
        r.push(*v)
    }
    fn check(r: &Self::R, idx: f64, v: &f64, _asp: Asp) {
        // a collapsed push reads the *equal* predecessor: 0.0 and -0.0 are equal, NaN never is
        let item = r.index(idx);
        assert!(item == *v || item.to_bits() == v.to_bits(), "ITEM: mirrored f64 differs from the pushed value");
    }
    fn model_eq(a: &f64, b: &f64) -> bool {
        a == b
    }
    fn payload(_v: &f64) -> usize {
        0
    }
    fn idx_eq(a: f64, b: f64) -> bool {
        a.to_bits() == b.to_bits()
    }
}

pub struct CipSliceU8;
impl Cat for CipSliceU8 {
    type R = ConsecutiveIndexPairs<SliceRegion<MirrorRegion<u8>>>;
    type V = Bytes<N>;
    fn empty() -> Option<Bytes<N>> {
        Some(Bytes::any_len(0))
    }
    fn any() -> Bytes<N> {
        Bytes::any()
    }
    fn push(r: &mut Self::R, v: &Bytes<N>) -> usize {
        r.push(v.as_slice())
    }
    fn check(r: &Self::R, idx: usize, v: &Bytes<N>, asp: Asp) {
        check_read_slice_u8!(r.index(idx), v, asp);
    }
    fn model_eq(a: &Bytes<N>, b: &Bytes<N>) -> bool {
        a.as_slice() == b.as_slice()
    }
    fn payload(v: &Bytes<N>) -> usize {
        v.len
    }
    fn idx_eq(a: usize, b: usize) -> bool {
        a == b
    }
}

/// Slice of mirrored `usize` values whose offsets live in the stride-optimised container: the stored offsets ARE the
/// (unconstrained) values, so stride breaks, spills and the u32/u64 switch all depend on the pushed data.
pub struct SliceUsizeOpt;
impl Cat for SliceUsizeOpt {
    type R = SliceRegion<MirrorRegion<usize>, IndexOptimized>;
    type V = [usize; 2];
    fn any() -> [usize; 2] {
        sym::words::<2>()
    }
    fn push(r: &mut Self::R, v: &[usize; 2]) -> (usize, usize) {
        r.push(v.as_slice())
    }
    fn check(r: &Self::R, idx: (usize, usize), v: &[usize; 2], asp: Asp) {
        let item = r.index(idx);
        assert!(item.len() == 2, "ITEM: slice length differs from the pushed value");
        assert!(item.get(0) == v[0] && item.get(1) == v[1], "ITEM: slice element differs from the pushed value");
        if asp.iter() {
            let mut it = item.iter();
            assert!(it.next() == Some(v[0]) && it.next() == Some(v[1]) && it.next().is_none(), "ITEM: iteration differs from the pushed value");
        }
        if asp.owned() {
            let o: Vec<usize> = item.into_owned();
            assert!(o.len() == 2 && o[0] == v[0] && o[1] == v[1], "ITEM: into_owned differs from the pushed value");
            sym::forget(o);
        }
    }
    fn model_eq(a: &[usize; 2], b: &[usize; 2]) -> bool {
        a == b
    }
    fn payload(_v: &[usize; 2]) -> usize {
        0
    }
    fn idx_eq(a: (usize, usize), b: (usize, usize)) -> bool {
        a == b
    }
}
