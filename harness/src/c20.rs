//! C20 — all accepted input forms of a value are interchangeable.  Twin regions: one is fed a *history that mixes
//! forms* (one form per step), the other the canonical form of the same values; after every step the returned
//! indices and the used bytes must coincide, at the end all reads.
use crate::gen::{same_bytes, same_str, string_shaped, Bytes};
use crate::sym;
use flatcontainer::impls::deduplicate::{CollapseSequence, ConsecutiveIndexPairs};
use flatcontainer::impls::tuple::TupleABRegion;
use flatcontainer::{
    ColumnsRegion, IntoOwned, MirrorRegion, OptionRegion, OwnedRegion, Push, PushIter, Region, ResultRegion,
    SliceRegion, StringRegion,
};

fn used<R: Region>(r: &R) -> usize {
    let mut u = 0usize;
    r.heap_size(|x, _| u += x);
    u
}

/// One step of the twin run.
macro_rules! step {
    ($a:ident, $b:ident, $form:expr, $canon:expr) => {{
        let ia = Push::push(&mut $a, $form);
        let ib = Push::push(&mut $b, $canon);
        assert!(ia == ib, "C20: a different input form returned a different index");
        assert!(used(&$a) == used(&$b), "C20: a different input form stored a different number of bytes");
        ia
    }};
}

// @h prop=C20 tier=quick kind=proof inst="OwnedRegion<u8>: &[u8], &&[u8], [u8;N], &[u8;N], &&[u8;N], Vec<u8>, &Vec<u8>, PushIter" bounds="8 steps, one form each, values of 2 symbolic bytes" desc="mixed-form history == canonical-form history: indices, used bytes, reads"
#[cfg_attr(kani, kani::proof, kani::unwind(12))]
pub fn c20_owned_forms() {
    let mut a = OwnedRegion::<u8>::default();
    let mut b = OwnedRegion::<u8>::default();
    let (v0, v1, v2, v3) = (sym::bytes::<2>(), sym::bytes::<2>(), sym::bytes::<2>(), sym::bytes::<2>());
    let (v4, v5, v6, v7) = (sym::bytes::<2>(), sym::bytes::<2>(), sym::bytes::<2>(), sym::bytes::<2>());
    let i0 = step!(a, b, v0.as_slice(), v0.as_slice());
    let _ = step!(a, b, &v1.as_slice(), v1.as_slice());
    let _ = step!(a, b, v2, v2.as_slice());
    let _ = step!(a, b, &v3, v3.as_slice());
    let _ = step!(a, b, &&v4, v4.as_slice());
    let _ = step!(a, b, v5.to_vec(), v5.as_slice());
    let _ = step!(a, b, &v6.to_vec(), v6.as_slice());
    let i7 = step!(a, b, PushIter(v7.iter().copied()), v7.as_slice());
    assert!(a.index(i0) == b.index(i0) && a.index(i7) == b.index(i7), "C20: reads differ between mixed and canonical history");
    let x7 = a.index(i7);
    assert!(x7.len() == 2 && x7[0] == v7[0] && x7[1] == v7[1], "C20: item pushed as an iterator reads differently");
    let j = sym::usize();
    sym::assume(j < 16);
    assert!(a.index((0, 16))[j] == b.index((0, 16))[j], "C20: stored bytes differ between mixed and canonical history");
    cover!(true, "end reached");
    sym::forget((a, b));
}

// @h prop=C20 tier=quick kind=proof inst="StringRegion: &str, &&str, String, &String" bounds="4 steps, one form each, strings of shapes [2],[3],[1,2],[4]" desc="mixed-form history == canonical-form history"
#[cfg_attr(kani, kani::proof, kani::unwind(10))]
pub fn c20_string_forms() {
    let mut a = <StringRegion>::default();
    let mut b = <StringRegion>::default();
    let s = [string_shaped(&[2]), string_shaped(&[3]), string_shaped(&[1, 2]), string_shaped(&[4])];
    let _ = step!(a, b, s[0].as_str(), s[0].as_str());
    let i1 = step!(a, b, &s[1].as_str(), s[1].as_str());
    let i2 = step!(a, b, s[2].clone(), s[2].as_str());
    let i3 = step!(a, b, &s[3], s[3].as_str());
    assert!(same_str(a.index(i1), &s[1]) && same_str(a.index(i2), &s[2]) && same_str(a.index(i3), &s[3]), "C20: reads differ from the pushed strings");
    cover!(true, "end reached");
    sym::forget((a, b));
}

// @h prop=C20 tier=quick kind=proof inst="MirrorRegion<u8>, Vec<u8> as region, OptionRegion, ResultRegion, TupleABRegion: owned / & / && forms" bounds="one value per form, symbolic" desc="reference forms are interchangeable with owned forms"
#[cfg_attr(kani, kani::proof, kani::unwind(8))]
pub fn c20_small_forms() {
    let x = sym::u8();
    let mut m = MirrorRegion::<u8>::default();
    assert!(m.push(x) == m.push(&x) && m.push(&x) == m.push(&&x), "C20: MirrorRegion forms differ");
    let mut va: Vec<u8> = Vec::new();
    let mut vb: Vec<u8> = Vec::new();
    let _ = step!(va, vb, x, x);
    let _ = step!(va, vb, &x, x);
    let i = step!(va, vb, &&x, x);
    assert!(Region::index(&va, i) == Region::index(&vb, i), "C20: Vec region reads differ");
    let s = string_shaped(&[2]);
    let mut oa = OptionRegion::<StringRegion>::default();
    let mut ob = OptionRegion::<StringRegion>::default();
    let some: Option<&str> = Some(s.as_str());
    let _ = step!(oa, ob, &some, some);
    let none: Option<&str> = None;
    let _ = step!(oa, ob, &none, none);
    let mut ra = ResultRegion::<StringRegion, MirrorRegion<u8>>::default();
    let mut rb = ResultRegion::<StringRegion, MirrorRegion<u8>>::default();
    let ok: Result<&str, u8> = Ok(s.as_str());
    let er: Result<&str, u8> = Err(x);
    let _ = step!(ra, rb, &ok, ok);
    let ie = step!(ra, rb, &er, er);
    assert!(ra.index(ie) == Err(x), "C20: Err pushed by reference reads differently");
    let mut ta = TupleABRegion::<StringRegion, MirrorRegion<u8>>::default();
    let mut tb = TupleABRegion::<StringRegion, MirrorRegion<u8>>::default();
    let tup = (s.as_str(), x);
    let it = step!(ta, tb, &tup, tup);
    assert!(same_str(ta.index(it).0, &s) && ta.index(it).1 == x, "C20: tuple pushed by reference reads differently");
    cover!(true, "end reached");
    sym::forget((va, vb, oa, ob, ra, rb, ta, tb));
}

type SR = SliceRegion<MirrorRegion<u8>>;

// @h prop=C20 tier=quick kind=proof inst="SliceRegion<MirrorRegion<u8>>: &[u8], Vec<u8>, &Vec<u8>, &&Vec<u8>, [u8;N], &[u8;N], &&[u8;N], ReadSlice (region-backed), ReadSlice (owned-borrowed)" bounds="9 steps, one form each, values of 2 symbolic bytes" desc="mixed-form history == canonical-form history"
#[cfg_attr(kani, kani::proof, kani::unwind(12))]
pub fn c20_slice_forms() {
    let mut a = SR::default();
    let mut b = SR::default();
    let v: [[u8; 2]; 9] = core::array::from_fn(|_| sym::bytes::<2>());
    let mut other = SR::default();
    let io = other.push(v[7].as_slice());
    let owned8: Vec<u8> = v[8].to_vec();
    let _ = step!(a, b, v[0].as_slice(), v[0].as_slice());
    let _ = step!(a, b, v[1].to_vec(), v[1].as_slice());
    let vv = v[2].to_vec();
    let _ = step!(a, b, &vv, v[2].as_slice());
    let vv3 = v[3].to_vec();
    let _ = step!(a, b, &&vv3, v[3].as_slice());
    let _ = step!(a, b, v[4], v[4].as_slice());
    let _ = step!(a, b, &v[5], v[5].as_slice());
    let _ = step!(a, b, &&v[6], v[6].as_slice());
    let i7 = step!(a, b, other.index(io), v[7].as_slice());
    let i8 = step!(a, b, <SR as Region>::ReadItem::borrow_as(&owned8), v[8].as_slice());
    assert!(a.index(i7) == b.index(i7) && a.index(i8) == b.index(i8), "C20: reads differ between mixed and canonical history");
    assert!(a.index(i8).get(1) == v[8][1] && a.index(i7).get(0) == v[7][0], "C20: item pushed as a read item reads differently");
    cover!(true, "end reached");
    sym::forget((a, b, other));
}

type CR = ColumnsRegion<MirrorRegion<u8>>;

// @h prop=C20 tier=quick kind=proof inst="ColumnsRegion<MirrorRegion<u8>>: &[u8], [u8;N]" bounds="2 steps, one form each, rows of 2 symbolic cells" desc="mixed-form history == canonical-form history"
#[cfg_attr(kani, kani::proof, kani::unwind(12))]
pub fn c20_columns_forms_a1() {
    let mut a = CR::default();
    let mut b = CR::default();
    let v: [[u8; 2]; 2] = core::array::from_fn(|_| sym::bytes::<2>());
    let _ = step!(a, b, v[0].as_slice(), v[0].as_slice());
    let i1 = step!(a, b, v[1], v[1].as_slice());
    assert!(a.index(i1).get(1) == v[1][1] && a.index(i1).len() == 2, "C20: row pushed in another form reads differently");
    cover!(true, "end reached");
    sym::forget((a, b));
}

// @h prop=C20 tier=quick kind=proof inst="ColumnsRegion<MirrorRegion<u8>>: &[u8;N], Vec<u8>" bounds="2 steps, one form each, rows of 2 symbolic cells" desc="mixed-form history == canonical-form history"
#[cfg_attr(kani, kani::proof, kani::unwind(12))]
pub fn c20_columns_forms_a2() {
    let mut a = CR::default();
    let mut b = CR::default();
    let v: [[u8; 2]; 2] = core::array::from_fn(|_| sym::bytes::<2>());
    let i2 = step!(a, b, &v[0], v[0].as_slice());
    let i3 = step!(a, b, v[1].to_vec(), v[1].as_slice());
    assert!(a.index(i2).get(1) == v[0][1] && a.index(i3).get(0) == v[1][0] && a.index(i3).len() == 2, "C20: row pushed in another form reads differently");
    cover!(true, "end reached");
    sym::forget((a, b));
}

// @h memw=13 prop=C20 tier=quick kind=proof inst="ColumnsRegion<MirrorRegion<u8>>: &Vec<u8>, PushIter, ReadColumns (region-backed)" bounds="3 steps, one form each, rows of 2 symbolic cells" desc="mixed-form history == canonical-form history"
#[cfg_attr(kani, kani::proof, kani::unwind(12))]
pub fn c20_columns_forms_b() {
    let mut a = CR::default();
    let mut b = CR::default();
    let v: [[u8; 2]; 3] = core::array::from_fn(|_| sym::bytes::<2>());
    let mut other = CR::default();
    let io = other.push(v[2].as_slice());
    let vv = v[0].to_vec();
    let _ = step!(a, b, &vv, v[0].as_slice());
    let i5 = step!(a, b, PushIter(v[1]), v[1].as_slice());
    let i6 = step!(a, b, other.index(io), v[2].as_slice());
    assert!(a.index(i5).get(0) == v[1][0] && a.index(i5).get(1) == v[1][1], "C20: row pushed as an iterator reads differently");
    assert!(a.index(i6).get(0) == v[2][0] && a.index(i6).get(1) == v[2][1] && a.index(i6).len() == 2, "C20: row pushed as a read item reads differently");
    cover!(true, "end reached");
    sym::forget((a, b, other));
}

// @h prop=C20 tier=quick kind=proof inst="forms reached through nesting: CollapseSequence<ConsecutiveIndexPairs<StringRegion>> and SliceRegion<StringRegion>" bounds="strings of shapes [2],[3]; rows of 2 strings" desc="children's forms (String, &String, &str) are interchangeable through wrappers and slices"
#[cfg_attr(kani, kani::proof, kani::unwind(10))]
pub fn c20_nested_forms() {
    type W = CollapseSequence<ConsecutiveIndexPairs<StringRegion>>;
    let mut a = W::default();
    let mut b = W::default();
    let s = [string_shaped(&[2]), string_shaped(&[3])];
    let _ = step!(a, b, &s[0], s[0].as_str());
    let i1 = step!(a, b, s[1].clone(), s[1].as_str());
    assert!(same_str(a.index(i1), &s[1]), "C20: wrapped string reads differently");
    let mut sa = SliceRegion::<StringRegion>::default();
    let mut sb = SliceRegion::<StringRegion>::default();
    let row_strs = [s[0].as_str(), s[1].as_str()];
    let row_owned = vec![s[0].clone(), s[1].clone()];
    let _ = step!(sa, sb, row_owned.as_slice(), row_strs.as_slice());
    let i = step!(sa, sb, row_owned.clone(), row_strs.as_slice());
    assert!(same_str(sa.index(i).get(1), &s[1]), "C20: string in a slice pushed as Vec<String> reads differently");
    cover!(true, "end reached");
    sym::forget((a, b, sa, sb));
}

// @h prop=C20 tier=quick kind=proof inst="SliceRegion<MirrorRegion<u8>>: the EMPTY value as ReadSlice (region-backed) and ReadSlice (owned-borrowed), pushed onto a non-empty region" bounds="one 2-byte item, then the empty value once per form" desc="an empty value gets the same index in every form (the index of an empty item is not (0,0) on a populated region)"
#[cfg_attr(kani, kani::proof, kani::unwind(12))]
pub fn c20_slice_empty_read_items() {
    let mut a = SR::default();
    let first = sym::bytes::<2>();
    let e: [u8; 0] = [];
    let mut other = SR::default();
    let _ = other.push(first.as_slice());
    let ie = other.push(e.as_slice());
    let owned: Vec<u8> = Vec::new();
    let _ = a.push(first.as_slice());
    let i1 = a.push(e.as_slice());
    let i4 = a.push(other.index(ie));
    let i5 = a.push(<SR as Region>::ReadItem::borrow_as(&owned));
    assert!(i1 == (2, 2) && i4 == (2, 2) && i5 == (2, 2), "C20: an empty item pushed as a read item does not get the index the slice form gets");
    assert!(a.index(i4).is_empty() && a.index(i5).len() == 0, "C20: empty item pushed as a read item is not empty");
    cover!(true, "end reached");
    sym::forget((a, other));
}

// @h prop=C20 tier=quick kind=proof inst="SliceRegion<MirrorRegion<u8>>: the EMPTY value as Vec<u8> and [u8;0], followed by a non-empty item" bounds="one 2-byte item, the empty value in two forms, one more 2-byte item" desc="empty values in owned forms get the index the slice form gets; the following item reads correctly"
#[cfg_attr(kani, kani::proof, kani::unwind(12))]
pub fn c20_slice_empty_owned_forms() {
    let mut a = SR::default();
    let first = sym::bytes::<2>();
    let e: [u8; 0] = [];
    let _ = a.push(first.as_slice());
    let i2 = a.push(Vec::<u8>::new());
    let i3 = a.push(e);
    assert!(i2 == (2, 2) && i3 == (2, 2), "C20: an empty item in an owned form does not start at the current end of the region");
    let last = sym::bytes::<2>();
    let il = a.push(last.as_slice());
    assert!(il == (2, 4) && a.index(il).get(0) == last[0] && a.index(il).get(1) == last[1], "C20: item after the empty items reads differently");
    cover!(true, "end reached");
    sym::forget(a);
}

// @h memw=8 prop=C20 tier=quick kind=proof inst="ConsecutiveIndexPairs<SliceRegion<MirrorRegion<u8>>>: empty and non-empty read items from another region" bounds="items of 2, 0, 2 symbolic bytes pushed as region-backed read items of a second region" desc="read items (incl. the empty one) as input form under dense indexing: indices 0,1,2, reads equal, no panic (the dense-pairs debug assertion holds)"
#[cfg_attr(kani, kani::proof, kani::unwind(12))]
pub fn c20_cip_slice_read_items() {
    type W = ConsecutiveIndexPairs<SR>;
    let mut src = SR::default();
    let x = sym::bytes::<2>();
    let e: [u8; 0] = [];
    let ix = src.push(x.as_slice());
    let ie = src.push(e.as_slice());
    let mut a = W::default();
    let i = a.push(src.index(ix));
    let j = a.push(src.index(ie));
    let k = a.push(src.index(ix));
    assert!(i == 0 && j == 1 && k == 2, "C20: dense indices differ when items are pushed as read items");
    assert!(a.index(j).is_empty() && a.index(k).get(1) == x[1] && a.index(k).len() == 2, "C20: items pushed as read items read differently");
    cover!(true, "end reached");
    sym::forget((a, src));
}

// @h memw=5 prop=C20 tier=quick kind=proof inst="ColumnsRegion<MirrorRegion<u8>>: a NARROWER row pushed as ReadColumns (region-backed) after a wider row" bounds="target holds a 3-cell row; a 1-cell row is pushed as a read item of another region; symbolic cells" desc="the read-item form behaves like the slice form: the earlier, wider row keeps its length and cells, the new row gets the next dense index"
#[cfg_attr(kani, kani::proof, kani::unwind(12))]
pub fn c20_columns_narrower_read_item() {
    let w = sym::bytes::<3>();
    let n = sym::bytes::<1>();
    let mut a = CR::default();
    let i0 = a.push(w.as_slice());
    let mut other = CR::default();
    let io = other.push(n.as_slice());
    let i1 = a.push(other.index(io));
    assert!(i0 == 0 && i1 == 1, "C20: rows pushed as read items do not get dense indices");
    let wide = a.index(i0);
    assert!(wide.len() == 3 && wide.get(1) == w[1] && wide.get(2) == w[2], "C20: a wider earlier row was damaged by pushing a narrower row as a read item");
    assert!(wide.iter().count() == 3, "C20: a wider earlier row iterates short after a narrower read item was pushed");
    assert!(a.index(i1).len() == 1 && a.index(i1).get(0) == n[0], "C20: narrower row pushed as a read item reads differently");
    cover!(true, "end reached");
    sym::forget((a, other));
}

// @h prop=C20 tier=quick kind=proof inst="SliceRegion<MirrorRegion<u8>>: a read item taken from the MIDDLE of its source region" bounds="source holds items of 2, 2, 1 symbolic bytes; the middle one is pushed as a region-backed read item onto a region holding one item" desc="the read-item form copies exactly the item's own elements (neither its predecessors' nor its successors'): same index and bytes as the slice form"
#[cfg_attr(kani, kani::proof, kani::unwind(12))]
pub fn c20_slice_read_item_from_middle() {
    let p = sym::bytes::<2>();
    let q = sym::bytes::<2>();
    let r = sym::bytes::<1>();
    let mut src = SR::default();
    let _ = src.push(p.as_slice());
    let iq = src.push(q.as_slice());
    let _ = src.push(r.as_slice());
    let mut a = SR::default();
    let mut b = SR::default();
    let _ = step!(a, b, p.as_slice(), p.as_slice());
    let i = step!(a, b, src.index(iq), q.as_slice());
    assert!(i == (2, 4), "C20: a read item from the middle of its region is copied with the wrong extent");
    assert!(a.index(i).len() == 2 && a.index(i).get(0) == q[0] && a.index(i).get(1) == q[1], "C20: a read item from the middle of its region reads differently");
    cover!(true, "end reached");
    sym::forget((a, b, src));
}

// @h memw=9 prop=C20 tier=quick kind=proof inst="ColumnsRegion<MirrorRegion<u8>>: a NARROWER row pushed as an owned Vec<u8> (and as &Vec<u8>) after a wider row" bounds="target holds a 3-cell row; 1-cell rows follow as Vec<u8> and &Vec<u8>; symbolic cells" desc="the owned forms grow the column set like the slice form and never shrink it: earlier, wider rows stay whole"
#[cfg_attr(kani, kani::proof, kani::unwind(12))]
pub fn c20_columns_narrower_owned_row() {
    let w = sym::bytes::<3>();
    let n = sym::bytes::<1>();
    let mut a = CR::default();
    let mut b = CR::default();
    let i0 = step!(a, b, w.as_slice(), w.as_slice());
    let i1 = step!(a, b, vec![n[0]], n.as_slice());
    let i2 = step!(a, b, &vec![n[0]], n.as_slice());
    assert!(i0 == 0 && i1 == 1 && i2 == 2, "C20: rows pushed in owned form do not get dense indices");
    let wide = a.index(i0);
    assert!(wide.len() == 3 && wide.get(1) == w[1] && wide.get(2) == w[2], "C20: a wider earlier row was damaged by pushing a narrower owned row");
    assert!(wide.iter().count() == 3, "C20: a wider earlier row iterates short after a narrower owned row was pushed");
    assert!(a.index(i1).len() == 1 && a.index(i1).get(0) == n[0] && a.index(i2).len() == 1, "C20: narrower owned row reads differently");
    assert!(used(&a) == used(&b), "C20: owned-form history uses a different amount of storage than the slice-form history");
    cover!(true, "end reached");
    sym::forget((a, b));
}

// @h prop=C20 tier=quick kind=proof inst="OwnedRegion<u8>: an owned Vec<u8> WITH SPARE CAPACITY pushed onto a non-empty region that has no room left" bounds="region filled to its capacity by one 8-byte item (symbolic bytes); then Vec::with_capacity(16) holding 1 symbolic byte, by value" desc="same index and reads as the slice form; the earlier item is not moved or altered whatever the buffers' capacities are"
#[cfg_attr(kani, kani::proof, kani::unwind(20))]
pub fn c20_owned_vec_with_spare_capacity() {
    type OR = OwnedRegion<u8>;
    let p = sym::bytes::<8>();
    let x = sym::u8();
    let mut a = OR::default();
    let mut b = OR::default();
    let i0 = step!(a, b, p.as_slice(), p.as_slice());
    let mut big: Vec<u8> = Vec::with_capacity(16);
    big.push(x);
    let i1 = step!(a, b, big, [x].as_slice());
    assert!(i0 == (0, 8) && i1 == (8, 9), "C20: owned vector with spare capacity gets a different index than the slice form");
    let first = a.index(i0);
    let k = sym::usize();
    sym::assume(k < 8);
    assert!(first.len() == 8 && first[k] == p[k], "C20: an earlier item was moved or altered by pushing an owned vector with spare capacity");
    assert!(a.index(i1).len() == 1 && a.index(i1)[0] == x, "C20: owned vector with spare capacity reads differently");
    cover!(true, "end reached");
    sym::forget((a, b));
}

// @h memw=6 prop=C20 tier=quick kind=proof inst="ColumnsRegion<MirrorRegion<u8>>: a NARROWER row pushed as a by-value array [u8; 1] (and &[u8; 1]) after a wider row" bounds="target holds a 3-cell row; 1-cell rows follow as [u8; 1] and &[u8; 1]; symbolic cells" desc="the array forms grow the column set like the slice form and never shrink it: earlier, wider rows stay whole"
#[cfg_attr(kani, kani::proof, kani::unwind(12))]
pub fn c20_columns_narrower_array_row() {
    let w = sym::bytes::<3>();
    let n = sym::bytes::<1>();
    let mut a = CR::default();
    let mut b = CR::default();
    let i0 = step!(a, b, w.as_slice(), w.as_slice());
    let i1 = step!(a, b, [n[0]], n.as_slice());
    let i2 = step!(a, b, &[n[0]], n.as_slice());
    assert!(i0 == 0 && i1 == 1 && i2 == 2, "C20: rows pushed in array form do not get dense indices");
    let wide = a.index(i0);
    assert!(wide.len() == 3 && wide.get(1) == w[1] && wide.get(2) == w[2], "C20: a wider earlier row was damaged by pushing a narrower array row");
    assert!(wide.iter().count() == 3, "C20: a wider earlier row iterates short after a narrower array row was pushed");
    assert!(a.index(i1).len() == 1 && a.index(i1).get(0) == n[0] && a.index(i2).len() == 1, "C20: narrower array row reads differently");
    cover!(true, "end reached");
    sym::forget((a, b));
}

// @h memw=6 prop=C20 tier=quick kind=proof inst="ColumnsRegion<MirrorRegion<u8>>: a NARROWER row pushed as PushIter (an iterator of cells) after a wider row" bounds="target holds a 3-cell row; a 1-cell row follows as PushIter([u8; 1]); symbolic cells" desc="the iterator form grows the column set like the slice form and never shrinks it"
#[cfg_attr(kani, kani::proof, kani::unwind(12))]
pub fn c20_columns_narrower_iter_row() {
    let w = sym::bytes::<3>();
    let n = sym::bytes::<1>();
    let mut a = CR::default();
    let mut b = CR::default();
    let i0 = step!(a, b, w.as_slice(), w.as_slice());
    let i1 = step!(a, b, PushIter(n), n.as_slice());
    assert!(i0 == 0 && i1 == 1, "C20: rows pushed in iterator form do not get dense indices");
    let wide = a.index(i0);
    assert!(wide.len() == 3 && wide.get(1) == w[1] && wide.get(2) == w[2], "C20: a wider earlier row was damaged by pushing a narrower iterator row");
    assert!(wide.iter().count() == 3, "C20: a wider earlier row iterates short after a narrower iterator row was pushed");
    assert!(a.index(i1).len() == 1 && a.index(i1).get(0) == n[0], "C20: narrower iterator row reads differently");
    cover!(true, "end reached");
    sym::forget((a, b));
}

// @h prop=C20 tier=quick kind=proof inst="OwnedRegion<u8> and StringRegion: the EMPTY value in its owned and array forms (Vec<u8>, &Vec<u8>, [u8; 0], &[u8; 0], &&[u8; 0] / String, &String) pushed onto a non-empty region" bounds="one 2-byte item, the empty value in every owned form, then a non-empty item in owned form; symbolic bytes / a 2-byte string" desc="every form of the empty value starts at the current end of the region (same index as the slice form) and reads back empty; later items are unaffected"
#[cfg_attr(kani, kani::proof, kani::unwind(12))]
pub fn c20_owned_and_string_empty_owned_forms() {
    let p = sym::bytes::<2>();
    let mut a = OwnedRegion::<u8>::default();
    let mut b = OwnedRegion::<u8>::default();
    let _ = step!(a, b, p.as_slice(), p.as_slice());
    let i1 = step!(a, b, Vec::<u8>::new(), [0u8; 0].as_slice());
    let i2 = step!(a, b, &Vec::<u8>::new(), [0u8; 0].as_slice());
    let i3 = step!(a, b, [0u8; 0], [0u8; 0].as_slice());
    let z: [u8; 0] = [];
    let i3r = step!(a, b, &z, [0u8; 0].as_slice());
    let i3rr = step!(a, b, &&z, [0u8; 0].as_slice());
    assert!(i1 == (2, 2) && i2 == (2, 2) && i3 == (2, 2) && i3r == (2, 2) && i3rr == (2, 2), "C20: an empty item in an owned form does not start at the current end of the region");
    assert!(a.index(i1).is_empty() && a.index(i3).is_empty(), "C20: an empty item in an owned form does not read back empty");
    let i4 = step!(a, b, p.to_vec(), p.as_slice());
    assert!(i4 == (2, 4) && a.index(i4)[1] == p[1], "C20: the item after empty owned forms reads differently");
    let s = string_shaped(&[2]);
    let mut c = <StringRegion>::default();
    let mut d = <StringRegion>::default();
    let _ = step!(c, d, s.as_str(), s.as_str());
    let j1 = step!(c, d, String::new(), "");
    let j2 = step!(c, d, &String::new(), "");
    assert!(j1 == (2, 2) && j2 == (2, 2) && c.index(j1).is_empty(), "C20: an empty string in an owned form does not start at the current end of the region");
    let j3 = step!(c, d, s.clone(), s.as_str());
    assert!(j3 == (2, 4) && same_str(c.index(j3), &s), "C20: the string after empty owned forms reads differently");
    cover!(true, "end reached");
    sym::forget((a, b, c, d));
}

/// A 1-cell row as a slice on both sides, then a row that is TWO cells wider than anything before, in the given form.
macro_rules! much_wider {
    ($w:ident, $n:ident, $form:expr) => {{
        let mut a = CR::default();
        let mut b = CR::default();
        let i0 = step!(a, b, $n.as_slice(), $n.as_slice());
        let i1 = step!(a, b, $form, $w.as_slice());
        assert!(i0 == 0 && i1 == 1, "C20: rows do not get dense indices");
        let wide = a.index(i1);
        assert!(wide.len() == 3 && wide.get(0) == $w[0] && wide.get(1) == $w[1] && wide.get(2) == $w[2], "C20: a row two cells wider than every earlier row reads back short or altered in this input form");
        assert!(wide.iter().count() == 3, "C20: a much wider row iterates short in this input form");
        assert!(a.index(i0).len() == 1 && a.index(i0).get(0) == $n[0], "C20: the earlier narrow row was altered by a much wider row");
        sym::forget((a, b));
    }};
}

// @h memw=8 prop=C20 tier=quick kind=proof inst="ColumnsRegion<MirrorRegion<u8>>: a row TWO cells wider than every earlier row, pushed as &Vec<u8> and as Vec<u8>" bounds="a 1-cell row, then a 3-cell row in the given form (fresh region pair per form); symbolic cells" desc="every form creates all the columns the row needs: same index, same storage and same reads as the slice form"
#[cfg_attr(kani, kani::proof, kani::unwind(12))]
pub fn c20_columns_much_wider_row_vec_forms() {
    let w = sym::bytes::<3>();
    let n = sym::bytes::<1>();
    much_wider!(w, n, &vec![w[0], w[1], w[2]]);
    much_wider!(w, n, vec![w[0], w[1], w[2]]);
    cover!(true, "end reached");
}

// @h memw=8 prop=C20 tier=quick kind=proof inst="ColumnsRegion<MirrorRegion<u8>>: a row TWO cells wider than every earlier row, pushed as [u8; 3], &[u8; 3] and PushIter" bounds="a 1-cell row, then a 3-cell row in the given form (fresh region pair per form); symbolic cells" desc="as c20_columns_much_wider_row_vec_forms for the array and iterator forms"
#[cfg_attr(kani, kani::proof, kani::unwind(12))]
pub fn c20_columns_much_wider_row_array_forms() {
    let w = sym::bytes::<3>();
    let n = sym::bytes::<1>();
    much_wider!(w, n, w);
    much_wider!(w, n, &w);
    much_wider!(w, n, PushIter(w.iter().copied()));
    cover!(true, "end reached");
}
