//! Kani proof harnesses over the real flatcontainer code, one module per property (see /verif/DESIGN.md).
//! Every harness is also an ordinary function so that a counterexample can be replayed natively (src/bin/replay.rs).
#![allow(clippy::all)]
#![allow(unused_imports, dead_code, unused_macros)]
#![cfg_attr(kani, feature(allocator_api))]

extern crate alloc;

#[macro_use]
pub mod sym;
pub mod allocstub;
pub mod gen;
pub mod cat;
pub mod model;
#[cfg(feature = "c16")]
pub mod tok;
#[cfg(feature = "c16")]
pub mod toksd;

#[cfg(feature = "c00")]
pub mod c00;
#[cfg(feature = "c01")]
pub mod c01;
#[cfg(feature = "c02")]
pub mod c02;
#[cfg(feature = "c03")]
pub mod c03;
#[cfg(feature = "c04")]
pub mod c04;
#[cfg(feature = "c04")]
pub mod c04_auto;
#[cfg(feature = "c05")]
pub mod c05;
#[cfg(feature = "c06")]
pub mod c06;
#[cfg(feature = "c07")]
pub mod c07;
#[cfg(feature = "c08")]
pub mod c08;
#[cfg(feature = "c09")]
pub mod c09;
#[cfg(feature = "c10")]
pub mod c10;
#[cfg(feature = "c11")]
pub mod c11;
#[cfg(feature = "c12")]
pub mod c12;
#[cfg(feature = "c13")]
pub mod c13;
#[cfg(feature = "c14")]
pub mod c14;
#[cfg(feature = "c15")]
pub mod c15;
#[cfg(feature = "c16")]
pub mod c16;
#[cfg(feature = "c17")]
pub mod c17;
#[cfg(feature = "c18")]
pub mod c18;
#[cfg(feature = "c19")]
pub mod c19;
#[cfg(feature = "c20")]
pub mod c20;

#[cfg(not(kani))]
pub mod registry {
    include!(concat!(env!("OUT_DIR"), "/registry.rs"));
}
