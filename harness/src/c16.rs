//! C16 — serialisation round trip preserves contents and future behaviour.  The format is the positional token format
//! of `tok.rs`; states have concrete shapes and symbolic values; both copies are driven through the same symbolic
//! continuation.  The `c16_sd_*` harnesses repeat the smallest states through the self-describing format of `toksd.rs`
//! (structs as name-keyed maps, enums tagged by variant name, `null`, one number type) — the data model the property
//! quantifies over, where serde attributes such as `untagged`, `flatten`, `skip` or `rename` show their effect.
use crate::gen::{same_bytes, same_str, string_shaped, Bytes};
use crate::sym;
use crate::tok::{from_tokens, to_tokens};
use flatcontainer::impls::deduplicate::{CollapseSequence, ConsecutiveIndexPairs};
use flatcontainer::impls::index::{IndexContainer, IndexList, IndexOptimized, Stride};
use flatcontainer::impls::storage::Storage;
use flatcontainer::impls::tuple::TupleABRegion;
use flatcontainer::{
    ColumnsRegion, FlatStack, MirrorRegion, OptionRegion, OwnedRegion, Push, Region, ResultRegion, SliceRegion,
    StringRegion,
};

fn stride_roundtrip(orig: Stride) {
    let t = to_tokens(&orig);
    let mut copy: Stride = from_tokens(&t);
    assert!(copy == orig, "C16: deserialised Stride differs from the original");
    let mut o = orig;
    let x = sym::usize();
    let a = o.push(x);
    let b = copy.push(x);
    assert!(a == b && o == copy, "C16: deserialised Stride answers the next push differently");
    cover!(a, "continuation accepted");
}

// @h prop=C16 tier=quick kind=proof inst="Stride (Empty, Zero, Striding(s,3), Saturated(s,3,r))" bounds="symbolic stride s (s*2 does not overflow) and repetitions r; one symbolic continuation push" desc="deserialised value equals the original and answers the next push identically (same acceptance, same state)"
#[cfg_attr(kani, kani::proof, kani::unwind(4))]
pub fn c16_stride() {
    let s = sym::usize();
    let r = sym::usize();
    sym::assume(s <= usize::MAX / 2 && r >= 1 && r <= isize::MAX as usize);
    let which = sym::u8();
    let orig = match which & 3 {
        0 => Stride::Empty,
        1 => Stride::Zero,
        2 => Stride::Striding(s, 3),
        _ => Stride::Saturated(s, 3, r),
    };
    stride_roundtrip(orig);
}

// @h prop=C16 tier=thorough kind=proof inst="Stride::Striding(s,c) / Saturated(s,c,r), all fields symbolic" bounds="all three fields unconstrained 64-bit values (no reachability assumption at all)" desc="the deserialised value is structurally equal to the original, field by field - which determines every future answer (the continuation with full-width fields, a symbolic 64x64 multiplication on both copies, ran past 2400 s; C05's one-step harnesses decide push from any such state)"
#[cfg(feature = "thorough")]
#[cfg_attr(kani, kani::proof, kani::unwind(4))]
pub fn c16_stride_full() {
    let s = sym::usize();
    let c = sym::usize();
    let r = sym::usize();
    let orig = if sym::bool() { Stride::Striding(s, c) } else { Stride::Saturated(s, c, r) };
    let t = to_tokens(&orig);
    let copy: Stride = from_tokens(&t);
    assert!(copy == orig, "C16: deserialised Stride differs from the original");
    match (copy, orig) {
        (Stride::Striding(a, b), Stride::Striding(x, y)) => assert!(a == x && b == y, "C16: Striding fields differ"),
        (Stride::Saturated(a, b, d), Stride::Saturated(x, y, z)) => assert!(a == x && b == y && d == z, "C16: Saturated fields differ"),
        _ => assert!(false, "C16: variant differs"),
    }
    cover!(true, "end reached");
}

// @h prop=C16 tier=quick kind=proof engine=both unwindset="memcmp:40" inst="IndexList<Vec<u32>,Vec<u64>>" bounds="state {smol: [a,b], chonk: [c]} with symbolic a,b,c; one symbolic continuation push" desc="structural equality and identical continuation"
#[cfg_attr(kani, kani::proof, kani::unwind(6))]
pub fn c16_index_list() {
    let orig: IndexList<Vec<u32>, Vec<u64>> = IndexList { smol: vec![sym::u32(), sym::u32()], chonk: vec![sym::u64()] };
    let t = to_tokens(&orig);
    let mut copy: IndexList<Vec<u32>, Vec<u64>> = from_tokens(&t);
    assert!(copy == orig, "C16: deserialised IndexList differs from the original");
    let mut o = orig;
    let x = sym::usize();
    o.push(x);
    copy.push(x);
    assert!(o == copy && o.len() == 4 && copy.index(3) == x, "C16: deserialised IndexList continues differently");
    cover!(true, "end reached");
    sym::forget((o, copy));
}

fn index_optimized_after(prefix: &[usize]) {
    let mut orig = IndexOptimized::<Vec<u32>, Vec<u64>>::default();
    for &p in prefix {
        orig.push(p);
    }
    let t = to_tokens(&orig);
    let mut copy: IndexOptimized = from_tokens(&t);
    assert!(copy == orig, "C16: deserialised IndexOptimized differs from the original");
    let x = sym::usize();
    orig.push(x);
    copy.push(x);
    assert!(orig == copy, "C16: deserialised IndexOptimized takes a different compression decision");
    let n = prefix.len();
    assert!(Storage::len(&copy) == n + 1 && copy.index(n) == x && copy.index(0) == prefix[0], "C16: deserialised IndexOptimized reads differently");
    sym::forget((orig, copy));
}

// @h prop=C16 tier=quick kind=proof engine=both unwindset="memcmp:40" inst="IndexOptimized (Striding and Saturated)" bounds="prefixes 0,3,6 and 0,3,6,6; one symbolic continuation push" desc="same index-compression decision after the round trip"
#[cfg_attr(kani, kani::proof, kani::unwind(8))]
pub fn c16_index_optimized_strided() {
    index_optimized_after(&[0, 3, 6]);
    index_optimized_after(&[0, 3, 6, 6]);
    cover!(true, "end reached");
}

// @h prop=C16 tier=quick kind=proof engine=both unwindset="memcmp:40" inst="IndexOptimized (spilled u32 / u64)" bounds="prefixes 0,3,5 and 0,3,2^40; one symbolic continuation push" desc="same index-compression decision after the round trip"
#[cfg_attr(kani, kani::proof, kani::unwind(8))]
pub fn c16_index_optimized_spilled() {
    index_optimized_after(&[0, 3, 5]);
    index_optimized_after(&[0, 3, 1 << 40]);
    cover!(true, "end reached");
}

// @h prop=C16 tier=quick kind=proof inst="CollapseSequence<OwnedRegion<u8>>" bounds="one stored item of 2 symbolic bytes; continuation: one symbolic 2-byte item" desc="the copy reads identically and takes the same deduplication decision (collapses iff the original does)"
#[cfg_attr(kani, kani::proof, kani::unwind(8))]
pub fn c16_collapse() {
    type R = CollapseSequence<OwnedRegion<u8>>;
    let mut orig = R::default();
    let a = Bytes::<3>::any_len(2);
    let ia = orig.push(a.as_slice());
    let t = to_tokens(&orig);
    let mut copy: R = from_tokens(&t);
    assert!(same_bytes(copy.index(ia), a.as_slice()) && copy.index(ia).len() == 2, "C16: copy reads differently at an issued index");
    let b = Bytes::<3>::any_len(2);
    let io = orig.push(b.as_slice());
    let ic = copy.push(b.as_slice());
    assert!(io == ic, "C16: copy takes a different deduplication decision");
    assert!(same_bytes(copy.index(ic), b.as_slice()), "C16: continuation item reads differently on the copy");
    cover!(io == ia, "collapsed");
    cover!(io != ia, "stored");
    sym::forget((orig, copy));
}

// @h prop=C16 tier=quick kind=proof inst="ConsecutiveIndexPairs<OwnedRegion<u8>> and FlatStack<_, IndexOptimized> over it" bounds="two stored items of 2 and 1 symbolic bytes; continuation: one 2-byte item" desc="issued indices read identically; continuation returns the same index and item"
#[cfg_attr(kani, kani::proof, kani::unwind(8))]
pub fn c16_cip_and_flatstack() {
    type R = ConsecutiveIndexPairs<OwnedRegion<u8>>;
    let a = Bytes::<3>::any_len(2);
    let b = Bytes::<3>::any_len(1);
    let c = Bytes::<3>::any_len(2);
    let mut orig = FlatStack::<R, IndexOptimized>::default();
    orig.copy(a.as_slice());
    orig.copy(b.as_slice());
    let t = to_tokens(&orig);
    let mut copy: FlatStack<R, IndexOptimized> = from_tokens(&t);
    assert!(copy.len() == 2, "C16: deserialised FlatStack has a different length");
    assert!(same_bytes(copy.get(0), a.as_slice()) && same_bytes(copy.get(1), b.as_slice()), "C16: deserialised FlatStack reads differently");
    assert!(copy.get(0).len() == 2 && copy.get(1).len() == 1, "C16: deserialised FlatStack item lengths differ");
    orig.copy(c.as_slice());
    copy.copy(c.as_slice());
    assert!(copy.len() == 3 && same_bytes(copy.get(2), c.as_slice()) && copy.get(2).len() == 2, "C16: continuation differs on the copy");
    // index compression still free on the copy
    let mut region_pairs = 0usize;
    let mut twin = R::default();
    let _ = twin.push(a.as_slice());
    twin.heap_size(|_, _| region_pairs += 1);
    let (mut k, mut own) = (0usize, 0usize);
    copy.heap_size(|u, cap| {
        if k >= region_pairs {
            own += u + cap;
        }
        k += 1;
    });
    assert!(own == 0, "C16: the copy lost its index compression");
    cover!(true, "end reached");
    sym::forget((orig, copy, twin));
}

// @h prop=C16 tier=quick kind=proof inst="SliceRegion<MirrorRegion<u8>>, OwnedRegion<u8>, StringRegion" bounds="two stored items each (2 and 1 elements / shapes [2],[3]); one continuation push" desc="issued indices read identically; same continuation index and item"
#[cfg_attr(kani, kani::proof, kani::unwind(8))]
pub fn c16_slice_owned_string() {
    let a = Bytes::<3>::any_len(2);
    let b = Bytes::<3>::any_len(1);
    let mut s1 = SliceRegion::<MirrorRegion<u8>>::default();
    let ia = s1.push(a.as_slice());
    let _ = s1.push(b.as_slice());
    let mut s2: SliceRegion<MirrorRegion<u8>> = from_tokens(&to_tokens(&s1));
    assert!(s2.index(ia).len() == 2 && s2.index(ia).get(1) == a.buf[1], "C16: slice item reads differently on the copy");
    assert!(s1.push(b.as_slice()) == s2.push(b.as_slice()), "C16: slice continuation index differs");
    let mut o1 = OwnedRegion::<u8>::default();
    let ja = o1.push(a.as_slice());
    let mut o2: OwnedRegion<u8> = from_tokens(&to_tokens(&o1));
    assert!(same_bytes(o2.index(ja), a.as_slice()), "C16: owned item reads differently on the copy");
    assert!(o1.push(b.as_slice()) == o2.push(b.as_slice()), "C16: owned continuation index differs");
    let p = string_shaped(&[2]);
    let q = string_shaped(&[3]);
    let mut r1 = <StringRegion>::default();
    let kp = r1.push(p.as_str());
    let mut r2: StringRegion = from_tokens(&to_tokens(&r1));
    assert!(same_str(r2.index(kp), &p), "C16: string reads differently on the copy");
    let k1 = r1.push(q.as_str());
    let k2 = r2.push(q.as_str());
    assert!(k1 == k2 && same_str(r2.index(k2), &q), "C16: string continuation differs");
    cover!(true, "end reached");
    sym::forget((s1, s2, o1, o2, r1, r2));
}

// @h prop=C16 tier=quick kind=proof inst="OptionRegion<StringRegion>, ResultRegion<StringRegion,MirrorRegion<u8>>, TupleABRegion<StringRegion,MirrorRegion<u16>>" bounds="one stored item each (shape [2]); one continuation push (shape [3])" desc="issued indices read identically; same continuation index and item"
#[cfg_attr(kani, kani::proof, kani::unwind(8))]
pub fn c16_option_result_tuple() {
    let p = string_shaped(&[2]);
    let q = string_shaped(&[3]);
    let e = sym::u8();
    let mut o1 = OptionRegion::<StringRegion>::default();
    let i1 = o1.push(Some(p.as_str()));
    let mut o2: OptionRegion<StringRegion> = from_tokens(&to_tokens(&o1));
    assert!(o2.index(i1).map(|s| same_str(s, &p)) == Some(true), "C16: option item reads differently on the copy");
    assert!(o1.push(Some(q.as_str())) == o2.push(Some(q.as_str())), "C16: option continuation index differs");
    let mut r1 = ResultRegion::<StringRegion, MirrorRegion<u8>>::default();
    let j1 = r1.push(Ok::<&str, u8>(p.as_str()));
    let j2 = r1.push(Err::<&str, u8>(e));
    let mut r2: ResultRegion<StringRegion, MirrorRegion<u8>> = from_tokens(&to_tokens(&r1));
    assert!(r2.index(j1).map(|s| same_str(s, &p)) == Ok(true) && r2.index(j2) == Err(e), "C16: result items read differently on the copy");
    assert!(r1.push(Ok::<&str, u8>(q.as_str())) == r2.push(Ok::<&str, u8>(q.as_str())), "C16: result continuation index differs");
    let u = sym::u16();
    let mut t1 = TupleABRegion::<StringRegion, MirrorRegion<u16>>::default();
    let k1 = t1.push((p.as_str(), u));
    let mut t2: TupleABRegion<StringRegion, MirrorRegion<u16>> = from_tokens(&to_tokens(&t1));
    assert!(same_str(t2.index(k1).0, &p) && t2.index(k1).1 == u, "C16: tuple item reads differently on the copy");
    assert!(t1.push((q.as_str(), u)) == t2.push((q.as_str(), u)), "C16: tuple continuation index differs");
    cover!(true, "end reached");
    sym::forget((o1, o2, r1, r2, t1, t2));
}

fn sd_stride_roundtrip(orig: Stride) {
    let t = crate::toksd::to_tokens(&orig);
    let mut copy: Stride = crate::toksd::from_tokens(&t);
    assert!(copy == orig, "C16: Stride deserialised from a self-describing format differs from the original");
    let mut o = orig;
    let x = sym::usize();
    let a = o.push(x);
    let b = copy.push(x);
    assert!(a == b && o == copy, "C16: Stride deserialised from a self-describing format answers the next push differently");
    cover!(a, "continuation accepted");
}

// @h prop=C16 tier=quick kind=proof unwindset="memcmp:40" timeout=900 inst="Stride::Empty through the self-describing token format" bounds="symbolic stride s (s*2 does not overflow) and repetitions r; one symbolic continuation push" desc="the variant survives a format in which enums are tagged by variant name and unit variants are bare names (one harness per variant: a symbolic variant makes the name pointers symbolic, 65 s and out of memory under `untagged`); same answer to the next push"
#[cfg_attr(kani, kani::proof, kani::unwind(4))]
pub fn c16_sd_stride_empty() {
    let s = sym::usize();
    let r = sym::usize();
    sym::assume(s <= usize::MAX / 2 && r >= 1 && r <= isize::MAX as usize);
    let _ = (s, r);
    sd_stride_roundtrip(Stride::Empty);
}

// @h prop=C16 tier=quick kind=proof unwindset="memcmp:40" timeout=900 inst="Stride::Zero through the self-describing token format" bounds="symbolic stride s (s*2 does not overflow) and repetitions r; one symbolic continuation push" desc="the variant survives a format in which enums are tagged by variant name and unit variants are bare names (one harness per variant: a symbolic variant makes the name pointers symbolic, 65 s and out of memory under `untagged`); same answer to the next push"
#[cfg_attr(kani, kani::proof, kani::unwind(4))]
pub fn c16_sd_stride_zero() {
    let s = sym::usize();
    let r = sym::usize();
    sym::assume(s <= usize::MAX / 2 && r >= 1 && r <= isize::MAX as usize);
    let _ = (s, r);
    sd_stride_roundtrip(Stride::Zero);
}

// @h prop=C16 tier=quick kind=proof unwindset="memcmp:40" timeout=900 inst="Stride::Striding(s,3) through the self-describing token format" bounds="symbolic stride s (s*2 does not overflow) and repetitions r; one symbolic continuation push" desc="the variant survives a format in which enums are tagged by variant name and unit variants are bare names (one harness per variant: a symbolic variant makes the name pointers symbolic, 65 s and out of memory under `untagged`); same answer to the next push"
#[cfg_attr(kani, kani::proof, kani::unwind(4))]
pub fn c16_sd_stride_striding() {
    let s = sym::usize();
    let r = sym::usize();
    sym::assume(s <= usize::MAX / 2 && r >= 1 && r <= isize::MAX as usize);
    let _ = (s, r);
    sd_stride_roundtrip(Stride::Striding(s, 3));
}

// @h prop=C16 tier=quick kind=proof unwindset="memcmp:40" timeout=900 inst="Stride::Saturated(s,3,r) through the self-describing token format" bounds="symbolic stride s (s*2 does not overflow) and repetitions r; one symbolic continuation push" desc="the variant survives a format in which enums are tagged by variant name and unit variants are bare names (one harness per variant: a symbolic variant makes the name pointers symbolic, 65 s and out of memory under `untagged`); same answer to the next push"
#[cfg_attr(kani, kani::proof, kani::unwind(4))]
pub fn c16_sd_stride_saturated() {
    let s = sym::usize();
    let r = sym::usize();
    sym::assume(s <= usize::MAX / 2 && r >= 1 && r <= isize::MAX as usize);
    let _ = (s, r);
    sd_stride_roundtrip(Stride::Saturated(s, 3, r));
}

// @h prop=C16 tier=thorough kind=proof unwindset="memcmp:40" timeout=1800 mem=16 memw=10 inst="IndexList<Vec<u32>,Vec<u64>> through the self-describing token format" bounds="state {smol: [a,b], chonk: [c]} with symbolic a,b,c; one symbolic continuation push" desc="structural equality after a round trip through name-keyed maps and delimited sequences; same continuation"
#[cfg(feature = "thorough")]
#[cfg_attr(kani, kani::proof, kani::unwind(6))]
pub fn c16_sd_index_list() {
    let orig: IndexList<Vec<u32>, Vec<u64>> = IndexList { smol: vec![sym::u32(), sym::u32()], chonk: vec![sym::u64()] };
    let t = crate::toksd::to_tokens(&orig);
    let mut copy: IndexList<Vec<u32>, Vec<u64>> = crate::toksd::from_tokens(&t);
    assert!(copy == orig, "C16: IndexList deserialised from a self-describing format differs from the original");
    let mut o = orig;
    let x = sym::usize();
    o.push(x);
    copy.push(x);
    assert!(o == copy && o.len() == 4 && copy.index(3) == x, "C16: IndexList deserialised from a self-describing format continues differently");
    cover!(true, "end reached");
    sym::forget((o, copy));
}

// @h prop=C16 tier=quick kind=proof inst="ConsecutiveIndexPairs<OwnedRegion<u8>, IndexOptimized> whose FIRST items are empty (offsets 0, 0, ..: the stride is 0)" bounds="stored items of 0, 0 and 1 symbolic bytes; continuation: one 2-byte item" desc="a zero stride (first items empty) survives the round trip: same reads, same continuation index, index compression still free"
#[cfg_attr(kani, kani::proof, kani::unwind(8))]
pub fn c16_cip_first_items_empty() {
    type R = ConsecutiveIndexPairs<OwnedRegion<u8>, IndexOptimized>;
    let b = Bytes::<3>::any_len(1);
    let c = Bytes::<3>::any_len(2);
    let mut orig = R::default();
    let i0 = orig.push([0u8; 0].as_slice());
    let i1 = orig.push([0u8; 0].as_slice());
    let t = to_tokens(&orig);
    let mut copy: R = from_tokens(&t);
    assert!(copy.index(i0).is_empty() && copy.index(i1).is_empty(), "C16: empty first items read differently on the copy");
    let io = orig.push(b.as_slice());
    let ic = copy.push(b.as_slice());
    assert!(io == ic && same_bytes(copy.index(ic), b.as_slice()), "C16: continuation after empty first items differs on the copy");
    let t2 = to_tokens(&orig);
    let mut copy2: R = from_tokens(&t2);
    let jo = orig.push(c.as_slice());
    let jc = copy2.push(c.as_slice());
    assert!(jo == jc && same_bytes(copy2.index(jc), c.as_slice()) && same_bytes(copy2.index(io), b.as_slice()), "C16: second round trip (zero stride broken by a non-empty item) differs");
    cover!(true, "end reached");
    sym::forget((orig, copy, copy2));
}

// @h prop=C16 tier=quick kind=proof inst="ColumnsRegion<MirrorRegion<u8>> before any column exists (Default::default())" bounds="the fresh region only; no push on either side (any push after the round trip is beyond what the solver finishes: DESIGN 4, C16)" desc="a columns region with no column yet can be deserialised from its own output and reports the same heap pairs as the original"
#[cfg_attr(kani, kani::proof, kani::unwind(8))]
pub fn c16_columns_without_columns() {
    type R = ColumnsRegion<MirrorRegion<u8>>;
    let orig = R::default();
    let t = to_tokens(&orig);
    let copy: R = from_tokens(&t);
    let (mut n0, mut u0, mut n1, mut u1) = (0usize, 0usize, 0usize, 0usize);
    orig.heap_size(|u, _| {
        n0 += 1;
        u0 += u;
    });
    copy.heap_size(|u, _| {
        n1 += 1;
        u1 += u;
    });
    assert!(n0 == n1 && u0 == u1, "C16: a fresh columns region differs from its deserialised copy");
    cover!(true, "end reached");
    sym::forget((orig, copy));
}
