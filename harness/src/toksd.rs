//! A *self-describing* token format for serde (C16, the `c16_sd_*` harnesses): `Serializer`/`Deserializer` over a fixed `[Tok; CAP]` buffer with
//! the data model of a self-describing *text* format (JSON as implemented by serde_json), minus the text: the property
//! quantifies over "a self-describing text format", and what the crate contributes to that is its
//! `#[derive(Serialize, Deserialize)]` output, its serde attributes and its hand-written bounds — this is the code executed
//! symbolically, not a text parser.
//!
//! Data model (the one serde_json implements): structs are maps from field *names* to values (a sequence of the fields in
//! order is accepted as well), enums are externally tagged by variant *name* (`"Unit"`, `{"Newtype": v}`,
//! `{"Tuple": [..]}`, `{"Struct": {..}}`), `None`/unit are `null` and `Some(v)` is `v`, all unsigned integers are one
//! number type, sequences and maps are delimited (no length prefix), unknown fields are skipped, `deserialize_any`,
//! `deserialize_ignored_any` and `deserialize_map` work — so `flatten`, `untagged`, `skip`, `default`, `rename` etc. behave
//! as they do with a real self-describing format.
//!
//! Measured: 10-30x the cost of the positional format of `tok.rs` under CBMC (string-keyed maps, delimited sequences, range
//! checks on every number), so only the smallest states are decided through it; see DESIGN.md, C16.
//!
//! What the format cannot express is reported as `HARNESS-LIMIT` (the runner turns that into *inconclusive*, never into
//! a violation): more than `CAP` tokens, 128-bit integers, non-string map keys.
use serde::de::value::BorrowedStrDeserializer;
use serde::de::{self, DeserializeSeed, EnumAccess, MapAccess, SeqAccess, VariantAccess, Visitor};
use serde::ser::{self, Serialize};
use serde::Deserialize;

pub const CAP: usize = 64;

#[derive(Clone, Copy, PartialEq, Debug)]
pub enum Tok {
    End,
    Null,
    Bool(bool),
    Num(u64),
    U8(u8),
    U16(u16),
    U32(u32),
    Neg(i64),
    F64(u64),
    Char(char),
    Str(&'static str),
    SeqStart,
    SeqEnd,
    MapStart,
    MapEnd,
}

/// Zero-sized on purpose: a two-variant error enum made the same harnesses 10-100x more expensive under CBMC.  Whether
/// a failure is the format's limit or a real data mismatch is recorded in a side flag.
#[derive(Debug)]
pub struct TokError;
impl core::fmt::Display for TokError {
    fn fmt(&self, _f: &mut core::fmt::Formatter<'_>) -> core::fmt::Result {
        Ok(())
    }
}
impl std::error::Error for TokError {}
impl ser::Error for TokError {
    fn custom<T: core::fmt::Display>(_msg: T) -> Self {
        TokError
    }
}
impl de::Error for TokError {
    fn custom<T: core::fmt::Display>(_msg: T) -> Self {
        TokError
    }
}

// see sym.rs: mutable statics of the harness crate start from magic bit patterns
const LIMIT_OFF: u64 = 0x5eed_5afe_7072_0000;
static mut LIMIT_RAW: u64 = LIMIT_OFF;

/// The format was asked for something it cannot express.
fn limit() -> TokError {
    unsafe { LIMIT_RAW = LIMIT_OFF + 1 }
    TokError
}
fn limit_hit() -> bool {
    unsafe { LIMIT_RAW != LIMIT_OFF }
}

/// Struct of arrays (token kind / numeric payload / name payload): an array of `Tok` values would hide the name pointers
/// and the kinds behind an enum payload, which the symbolic executor cannot constant-propagate through.
pub struct Buf {
    kind: [u8; CAP],
    num: [u64; CAP],
    name: [&'static str; CAP],
    pub len: usize,
}

const K_END: u8 = 0;
const K_NULL: u8 = 1;
const K_BOOL: u8 = 2;
const K_NUM: u8 = 3;
const K_NEG: u8 = 4;
const K_F64: u8 = 5;
const K_CHAR: u8 = 6;
const K_STR: u8 = 7;
const K_SEQ_START: u8 = 8;
const K_SEQ_END: u8 = 9;
const K_MAP_START: u8 = 10;
const K_MAP_END: u8 = 11;
const K_U8: u8 = 12;
const K_U16: u8 = 13;
const K_U32: u8 = 14;

impl Buf {
    pub fn new() -> Self {
        Buf { kind: [K_END; CAP], num: [0; CAP], name: [""; CAP], len: 0 }
    }
    fn put(&mut self, t: Tok) -> Result<(), TokError> {
        if self.len >= CAP {
            return Err(limit());
        }
        let i = self.len;
        match t {
            Tok::End => self.kind[i] = K_END,
            Tok::Null => self.kind[i] = K_NULL,
            Tok::Bool(b) => {
                self.kind[i] = K_BOOL;
                self.num[i] = b as u64;
            }
            Tok::Num(x) => {
                self.kind[i] = K_NUM;
                self.num[i] = x;
            }
            Tok::U8(x) => {
                self.kind[i] = K_U8;
                self.num[i] = x as u64;
            }
            Tok::U16(x) => {
                self.kind[i] = K_U16;
                self.num[i] = x as u64;
            }
            Tok::U32(x) => {
                self.kind[i] = K_U32;
                self.num[i] = x as u64;
            }
            Tok::Neg(x) => {
                self.kind[i] = K_NEG;
                self.num[i] = x as u64;
            }
            Tok::F64(x) => {
                self.kind[i] = K_F64;
                self.num[i] = x;
            }
            Tok::Char(c) => {
                self.kind[i] = K_CHAR;
                self.num[i] = c as u64;
            }
            Tok::Str(s) => {
                self.kind[i] = K_STR;
                self.name[i] = s;
            }
            Tok::SeqStart => self.kind[i] = K_SEQ_START,
            Tok::SeqEnd => self.kind[i] = K_SEQ_END,
            Tok::MapStart => self.kind[i] = K_MAP_START,
            Tok::MapEnd => self.kind[i] = K_MAP_END,
        }
        self.len += 1;
        Ok(())
    }
    /// The token at position `i` (tests, diagnostics).
    pub fn get(&self, i: usize) -> Tok {
        match self.kind[i] {
            K_NULL => Tok::Null,
            K_BOOL => Tok::Bool(self.num[i] != 0),
            K_NUM => Tok::Num(self.num[i]),
            K_U8 => Tok::U8(self.num[i] as u8),
            K_U16 => Tok::U16(self.num[i] as u16),
            K_U32 => Tok::U32(self.num[i] as u32),
            K_NEG => Tok::Neg(self.num[i] as i64),
            K_F64 => Tok::F64(self.num[i]),
            K_CHAR => Tok::Char(char::from_u32(self.num[i] as u32).unwrap_or('\u{fffd}')),
            K_STR => Tok::Str(self.name[i]),
            K_SEQ_START => Tok::SeqStart,
            K_SEQ_END => Tok::SeqEnd,
            K_MAP_START => Tok::MapStart,
            K_MAP_END => Tok::MapEnd,
            _ => Tok::End,
        }
    }
}

/// Serialise `v` into a fresh buffer.
pub fn to_tokens<T: Serialize>(v: &T) -> Buf {
    let mut b = Buf::new();
    match v.serialize(&mut b) {
        Ok(()) => {}
        Err(_) if limit_hit() => panic!("HARNESS-LIMIT: the token format cannot express this value (buffer too small or unsupported type)"),
        Err(_) => panic!("TOK: serialisation failed"),
    }
    b
}

/// Deserialise a value from the buffer; all tokens must be consumed.
pub fn from_tokens<'de, T: Deserialize<'de>>(b: &Buf) -> T {
    let mut r = Reader { buf: b, pos: 0 };
    let v = match T::deserialize(&mut r) {
        Ok(v) => v,
        Err(_) if limit_hit() => panic!("HARNESS-LIMIT: the token format cannot express what the deserialiser asks for"),
        Err(_) => panic!("TOK: deserialisation failed"),
    };
    assert!(r.pos == b.len, "TOK: trailing tokens after deserialisation");
    v
}

/// What `end()` of a compound still has to write.
#[derive(Clone, Copy)]
pub enum Close {
    Seq,
    Map,
    SeqThenMap,
    MapThenMap,
}

pub struct Comp<'a> {
    buf: &'a mut Buf,
    close: Close,
}

impl<'a> Comp<'a> {
    fn finish(self) -> Result<(), TokError> {
        match self.close {
            Close::Seq => self.buf.put(Tok::SeqEnd),
            Close::Map => self.buf.put(Tok::MapEnd),
            Close::SeqThenMap => {
                self.buf.put(Tok::SeqEnd)?;
                self.buf.put(Tok::MapEnd)
            }
            Close::MapThenMap => {
                self.buf.put(Tok::MapEnd)?;
                self.buf.put(Tok::MapEnd)
            }
        }
    }
}

impl<'a> ser::Serializer for &'a mut Buf {
    type Ok = ();
    type Error = TokError;
    type SerializeSeq = Comp<'a>;
    type SerializeTuple = Comp<'a>;
    type SerializeTupleStruct = Comp<'a>;
    type SerializeTupleVariant = Comp<'a>;
    type SerializeMap = Comp<'a>;
    type SerializeStruct = Comp<'a>;
    type SerializeStructVariant = Comp<'a>;

    fn serialize_bool(self, v: bool) -> Result<(), TokError> {
        self.put(Tok::Bool(v))
    }
    fn serialize_i8(self, v: i8) -> Result<(), TokError> {
        self.serialize_i64(v as i64)
    }
    fn serialize_i16(self, v: i16) -> Result<(), TokError> {
        self.serialize_i64(v as i64)
    }
    fn serialize_i32(self, v: i32) -> Result<(), TokError> {
        self.serialize_i64(v as i64)
    }
    fn serialize_i64(self, v: i64) -> Result<(), TokError> {
        if v >= 0 {
            self.put(Tok::Num(v as u64))
        } else {
            self.put(Tok::Neg(v))
        }
    }
    fn serialize_i128(self, _v: i128) -> Result<(), TokError> {
        Err(limit())
    }
    fn serialize_u8(self, v: u8) -> Result<(), TokError> {
        self.put(Tok::Num(v as u64))
    }
    fn serialize_u16(self, v: u16) -> Result<(), TokError> {
        self.put(Tok::Num(v as u64))
    }
    fn serialize_u32(self, v: u32) -> Result<(), TokError> {
        self.put(Tok::Num(v as u64))
    }
    fn serialize_u64(self, v: u64) -> Result<(), TokError> {
        self.put(Tok::Num(v))
    }
    fn serialize_u128(self, _v: u128) -> Result<(), TokError> {
        Err(limit())
    }
    fn serialize_f32(self, v: f32) -> Result<(), TokError> {
        self.serialize_f64(v as f64)
    }
    fn serialize_f64(self, v: f64) -> Result<(), TokError> {
        // serde_json writes non-finite floats as null
        if v.is_finite() {
            self.put(Tok::F64(v.to_bits()))
        } else {
            self.put(Tok::Null)
        }
    }
    fn serialize_char(self, v: char) -> Result<(), TokError> {
        self.put(Tok::Char(v))
    }
    fn serialize_str(self, v: &str) -> Result<(), TokError> {
        // only names reach this in practice (keys written through `SerializeMap`, e.g. by `flatten`)
        let s: &'static str = Box::leak(v.to_owned().into_boxed_str());
        self.put(Tok::Str(s))
    }
    fn serialize_bytes(self, v: &[u8]) -> Result<(), TokError> {
        self.put(Tok::SeqStart)?;
        for b in v {
            self.put(Tok::Num(*b as u64))?;
        }
        self.put(Tok::SeqEnd)
    }
    fn serialize_none(self) -> Result<(), TokError> {
        self.put(Tok::Null)
    }
    fn serialize_some<T: ?Sized + Serialize>(self, value: &T) -> Result<(), TokError> {
        value.serialize(self)
    }
    fn serialize_unit(self) -> Result<(), TokError> {
        self.put(Tok::Null)
    }
    fn serialize_unit_struct(self, _name: &'static str) -> Result<(), TokError> {
        self.put(Tok::Null)
    }
    fn serialize_unit_variant(self, _n: &'static str, _idx: u32, v: &'static str) -> Result<(), TokError> {
        self.put(Tok::Str(v))
    }
    fn serialize_newtype_struct<T: ?Sized + Serialize>(self, _n: &'static str, value: &T) -> Result<(), TokError> {
        value.serialize(self)
    }
    fn serialize_newtype_variant<T: ?Sized + Serialize>(
        self,
        _n: &'static str,
        _idx: u32,
        v: &'static str,
        value: &T,
    ) -> Result<(), TokError> {
        self.put(Tok::MapStart)?;
        self.put(Tok::Str(v))?;
        value.serialize(&mut *self)?;
        self.put(Tok::MapEnd)
    }
    fn serialize_seq(self, _len: Option<usize>) -> Result<Comp<'a>, TokError> {
        self.put(Tok::SeqStart)?;
        Ok(Comp { buf: self, close: Close::Seq })
    }
    fn serialize_tuple(self, _len: usize) -> Result<Comp<'a>, TokError> {
        self.put(Tok::SeqStart)?;
        Ok(Comp { buf: self, close: Close::Seq })
    }
    fn serialize_tuple_struct(self, _n: &'static str, _len: usize) -> Result<Comp<'a>, TokError> {
        self.put(Tok::SeqStart)?;
        Ok(Comp { buf: self, close: Close::Seq })
    }
    fn serialize_tuple_variant(self, _n: &'static str, _idx: u32, v: &'static str, _len: usize) -> Result<Comp<'a>, TokError> {
        self.put(Tok::MapStart)?;
        self.put(Tok::Str(v))?;
        self.put(Tok::SeqStart)?;
        Ok(Comp { buf: self, close: Close::SeqThenMap })
    }
    fn serialize_map(self, _len: Option<usize>) -> Result<Comp<'a>, TokError> {
        self.put(Tok::MapStart)?;
        Ok(Comp { buf: self, close: Close::Map })
    }
    fn serialize_struct(self, _n: &'static str, _len: usize) -> Result<Comp<'a>, TokError> {
        self.put(Tok::MapStart)?;
        Ok(Comp { buf: self, close: Close::Map })
    }
    fn serialize_struct_variant(self, _n: &'static str, _idx: u32, v: &'static str, _len: usize) -> Result<Comp<'a>, TokError> {
        self.put(Tok::MapStart)?;
        self.put(Tok::Str(v))?;
        self.put(Tok::MapStart)?;
        Ok(Comp { buf: self, close: Close::MapThenMap })
    }
}

macro_rules! compound {
    ($tr:path, $f:ident) => {
        impl<'a> $tr for Comp<'a> {
            type Ok = ();
            type Error = TokError;
            fn $f<T: ?Sized + Serialize>(&mut self, value: &T) -> Result<(), TokError> {
                value.serialize(&mut *self.buf)
            }
            fn end(self) -> Result<(), TokError> {
                self.finish()
            }
        }
    };
}
compound!(ser::SerializeSeq, serialize_element);
compound!(ser::SerializeTuple, serialize_element);
compound!(ser::SerializeTupleStruct, serialize_field);
compound!(ser::SerializeTupleVariant, serialize_field);

impl<'a> ser::SerializeMap for Comp<'a> {
    type Ok = ();
    type Error = TokError;
    fn serialize_key<T: ?Sized + Serialize>(&mut self, key: &T) -> Result<(), TokError> {
        let before = self.buf.len;
        key.serialize(&mut *self.buf)?;
        // keys of a text format are strings
        if self.buf.len == before + 1 && self.buf.kind[before] == K_STR {
            return Ok(());
        }
        Err(limit())
    }
    fn serialize_value<T: ?Sized + Serialize>(&mut self, value: &T) -> Result<(), TokError> {
        value.serialize(&mut *self.buf)
    }
    fn end(self) -> Result<(), TokError> {
        self.finish()
    }
}

impl<'a> ser::SerializeStruct for Comp<'a> {
    type Ok = ();
    type Error = TokError;
    fn serialize_field<T: ?Sized + Serialize>(&mut self, key: &'static str, value: &T) -> Result<(), TokError> {
        self.buf.put(Tok::Str(key))?;
        value.serialize(&mut *self.buf)
    }
    fn end(self) -> Result<(), TokError> {
        self.finish()
    }
}
impl<'a> ser::SerializeStructVariant for Comp<'a> {
    type Ok = ();
    type Error = TokError;
    fn serialize_field<T: ?Sized + Serialize>(&mut self, key: &'static str, value: &T) -> Result<(), TokError> {
        self.buf.put(Tok::Str(key))?;
        value.serialize(&mut *self.buf)
    }
    fn end(self) -> Result<(), TokError> {
        self.finish()
    }
}

pub struct Reader<'b> {
    buf: &'b Buf,
    pos: usize,
}

impl<'b> Reader<'b> {
    /// Kind of the next token (not consumed).
    fn peek(&self) -> Result<u8, TokError> {
        if self.pos >= self.buf.len {
            return Err(TokError);
        }
        Ok(self.buf.kind[self.pos])
    }
    /// Consume the next token, which must be of kind `k`; returns its position.
    fn take(&mut self, k: u8) -> Result<usize, TokError> {
        if self.peek()? == k {
            self.pos += 1;
            Ok(self.pos - 1)
        } else {
            Err(TokError)
        }
    }
    /// Skip one complete value.
    fn skip(&mut self) -> Result<(), TokError> {
        let mut depth = 0usize;
        loop {
            let k = self.peek()?;
            self.pos += 1;
            match k {
                K_SEQ_START | K_MAP_START => depth += 1,
                K_SEQ_END | K_MAP_END => {
                    if depth == 0 {
                        return Err(TokError);
                    }
                    depth -= 1;
                }
                K_END => return Err(TokError),
                _ => {}
            }
            if depth == 0 {
                return Ok(());
            }
        }
    }
}

struct Elems<'r, 'b> {
    r: &'r mut Reader<'b>,
}

impl<'de, 'r, 'b> SeqAccess<'de> for Elems<'r, 'b> {
    type Error = TokError;
    fn next_element_seed<T: DeserializeSeed<'de>>(&mut self, seed: T) -> Result<Option<T::Value>, TokError> {
        if self.r.peek()? == K_SEQ_END {
            return Ok(None);
        }
        seed.deserialize(&mut *self.r).map(Some)
    }
}

struct Entries<'r, 'b> {
    r: &'r mut Reader<'b>,
}

impl<'de, 'r, 'b> MapAccess<'de> for Entries<'r, 'b> {
    type Error = TokError;
    fn next_key_seed<K: DeserializeSeed<'de>>(&mut self, seed: K) -> Result<Option<K::Value>, TokError> {
        match self.r.peek()? {
            K_MAP_END => Ok(None),
            K_STR => {
                let i = self.r.take(K_STR)?;
                seed.deserialize(BorrowedStrDeserializer::<TokError>::new(self.r.buf.name[i])).map(Some)
            }
            _ => Err(TokError),
        }
    }
    fn next_value_seed<V: DeserializeSeed<'de>>(&mut self, seed: V) -> Result<V::Value, TokError> {
        seed.deserialize(&mut *self.r)
    }
}

/// `"Variant"`: a unit variant given by name alone.
struct UnitOnly {
    name: &'static str,
}

impl<'de> EnumAccess<'de> for UnitOnly {
    type Error = TokError;
    type Variant = UnitOnly;
    fn variant_seed<V: DeserializeSeed<'de>>(self, seed: V) -> Result<(V::Value, UnitOnly), TokError> {
        let v = seed.deserialize(BorrowedStrDeserializer::<TokError>::new(self.name))?;
        Ok((v, self))
    }
}

impl<'de> VariantAccess<'de> for UnitOnly {
    type Error = TokError;
    fn unit_variant(self) -> Result<(), TokError> {
        Ok(())
    }
    fn newtype_variant_seed<T: DeserializeSeed<'de>>(self, _seed: T) -> Result<T::Value, TokError> {
        Err(TokError)
    }
    fn tuple_variant<V: Visitor<'de>>(self, _len: usize, _visitor: V) -> Result<V::Value, TokError> {
        Err(TokError)
    }
    fn struct_variant<V: Visitor<'de>>(self, _fields: &'static [&'static str], _visitor: V) -> Result<V::Value, TokError> {
        Err(TokError)
    }
}

/// `{"Variant": payload}`.
struct Tagged<'r, 'b> {
    r: &'r mut Reader<'b>,
    name: &'static str,
}

impl<'de, 'r, 'b> EnumAccess<'de> for Tagged<'r, 'b> {
    type Error = TokError;
    type Variant = &'r mut Reader<'b>;
    fn variant_seed<V: DeserializeSeed<'de>>(self, seed: V) -> Result<(V::Value, &'r mut Reader<'b>), TokError> {
        let v = seed.deserialize(BorrowedStrDeserializer::<TokError>::new(self.name))?;
        Ok((v, self.r))
    }
}

impl<'de, 'r, 'b> VariantAccess<'de> for &'r mut Reader<'b> {
    type Error = TokError;
    fn unit_variant(self) -> Result<(), TokError> {
        self.take(K_NULL).map(|_| ())
    }
    fn newtype_variant_seed<T: DeserializeSeed<'de>>(self, seed: T) -> Result<T::Value, TokError> {
        seed.deserialize(self)
    }
    fn tuple_variant<V: Visitor<'de>>(self, _len: usize, visitor: V) -> Result<V::Value, TokError> {
        de::Deserializer::deserialize_seq(self, visitor)
    }
    fn struct_variant<V: Visitor<'de>>(self, fields: &'static [&'static str], visitor: V) -> Result<V::Value, TokError> {
        de::Deserializer::deserialize_struct(self, "", fields, visitor)
    }
}

impl<'de, 'r, 'b> de::Deserializer<'de> for &'r mut Reader<'b> {
    type Error = TokError;

    fn deserialize_any<V: Visitor<'de>>(self, v: V) -> Result<V::Value, TokError> {
        let k = self.peek()?;
        match k {
            K_SEQ_START => return self.deserialize_seq(v),
            K_MAP_START => return self.deserialize_map(v),
            K_SEQ_END | K_MAP_END | K_END => return Err(TokError),
            _ => {}
        }
        let i = self.take(k)?;
        let x = self.buf.num[i];
        match k {
            K_NULL => v.visit_unit(),
            K_BOOL => v.visit_bool(x != 0),
            K_NUM => v.visit_u64(x),
            K_U8 => v.visit_u8(x as u8),
            K_U16 => v.visit_u16(x as u16),
            K_U32 => v.visit_u32(x as u32),
            K_NEG => v.visit_i64(x as i64),
            K_F64 => v.visit_f64(f64::from_bits(x)),
            K_CHAR => match char::from_u32(x as u32) {
                Some(c) => v.visit_char(c),
                None => Err(TokError),
            },
            _ => v.visit_borrowed_str(self.buf.name[i]),
        }
    }
    fn deserialize_bool<V: Visitor<'de>>(self, v: V) -> Result<V::Value, TokError> {
        let i = self.take(K_BOOL)?;
        v.visit_bool(self.buf.num[i] != 0)
    }
    fn deserialize_u8<V: Visitor<'de>>(self, v: V) -> Result<V::Value, TokError> {
        self.deserialize_u64(v)
    }
    fn deserialize_u16<V: Visitor<'de>>(self, v: V) -> Result<V::Value, TokError> {
        self.deserialize_u64(v)
    }
    fn deserialize_u32<V: Visitor<'de>>(self, v: V) -> Result<V::Value, TokError> {
        self.deserialize_u64(v)
    }
    fn deserialize_u64<V: Visitor<'de>>(self, v: V) -> Result<V::Value, TokError> {
        // one number type, as in a text format: the visitor does the range check
        match self.peek()? {
            K_NUM | K_U8 | K_U16 | K_U32 | K_NEG => self.deserialize_any(v),
            _ => Err(TokError),
        }
    }
    fn deserialize_i8<V: Visitor<'de>>(self, v: V) -> Result<V::Value, TokError> {
        self.deserialize_u64(v)
    }
    fn deserialize_i16<V: Visitor<'de>>(self, v: V) -> Result<V::Value, TokError> {
        self.deserialize_u64(v)
    }
    fn deserialize_i32<V: Visitor<'de>>(self, v: V) -> Result<V::Value, TokError> {
        self.deserialize_u64(v)
    }
    fn deserialize_i64<V: Visitor<'de>>(self, v: V) -> Result<V::Value, TokError> {
        self.deserialize_u64(v)
    }
    fn deserialize_i128<V: Visitor<'de>>(self, _v: V) -> Result<V::Value, TokError> {
        Err(limit())
    }
    fn deserialize_u128<V: Visitor<'de>>(self, _v: V) -> Result<V::Value, TokError> {
        Err(limit())
    }
    fn deserialize_f32<V: Visitor<'de>>(self, v: V) -> Result<V::Value, TokError> {
        self.deserialize_f64(v)
    }
    fn deserialize_f64<V: Visitor<'de>>(self, v: V) -> Result<V::Value, TokError> {
        match self.peek()? {
            K_F64 => {
                let i = self.take(K_F64)?;
                v.visit_f64(f64::from_bits(self.buf.num[i]))
            }
            _ => self.deserialize_u64(v),
        }
    }
    fn deserialize_char<V: Visitor<'de>>(self, v: V) -> Result<V::Value, TokError> {
        match self.peek()? {
            K_CHAR => self.deserialize_any(v),
            K_STR => self.deserialize_str(v),
            _ => Err(TokError),
        }
    }
    fn deserialize_str<V: Visitor<'de>>(self, v: V) -> Result<V::Value, TokError> {
        let i = self.take(K_STR)?;
        v.visit_borrowed_str(self.buf.name[i])
    }
    fn deserialize_string<V: Visitor<'de>>(self, v: V) -> Result<V::Value, TokError> {
        self.deserialize_str(v)
    }
    fn deserialize_bytes<V: Visitor<'de>>(self, v: V) -> Result<V::Value, TokError> {
        self.deserialize_any(v)
    }
    fn deserialize_byte_buf<V: Visitor<'de>>(self, v: V) -> Result<V::Value, TokError> {
        self.deserialize_any(v)
    }
    fn deserialize_option<V: Visitor<'de>>(self, v: V) -> Result<V::Value, TokError> {
        match self.peek()? {
            K_NULL => {
                self.pos += 1;
                v.visit_none()
            }
            _ => v.visit_some(self),
        }
    }
    fn deserialize_unit<V: Visitor<'de>>(self, v: V) -> Result<V::Value, TokError> {
        self.take(K_NULL)?;
        v.visit_unit()
    }
    fn deserialize_unit_struct<V: Visitor<'de>>(self, _n: &'static str, v: V) -> Result<V::Value, TokError> {
        self.deserialize_unit(v)
    }
    fn deserialize_newtype_struct<V: Visitor<'de>>(self, _n: &'static str, v: V) -> Result<V::Value, TokError> {
        v.visit_newtype_struct(self)
    }
    fn deserialize_seq<V: Visitor<'de>>(self, v: V) -> Result<V::Value, TokError> {
        self.take(K_SEQ_START)?;
        let value = v.visit_seq(Elems { r: &mut *self })?;
        self.take(K_SEQ_END)?;
        Ok(value)
    }
    fn deserialize_tuple<V: Visitor<'de>>(self, _len: usize, v: V) -> Result<V::Value, TokError> {
        self.deserialize_seq(v)
    }
    fn deserialize_tuple_struct<V: Visitor<'de>>(self, _n: &'static str, _len: usize, v: V) -> Result<V::Value, TokError> {
        self.deserialize_seq(v)
    }
    fn deserialize_map<V: Visitor<'de>>(self, v: V) -> Result<V::Value, TokError> {
        self.take(K_MAP_START)?;
        let value = v.visit_map(Entries { r: &mut *self })?;
        self.take(K_MAP_END)?;
        Ok(value)
    }
    fn deserialize_struct<V: Visitor<'de>>(
        self,
        _n: &'static str,
        _fields: &'static [&'static str],
        v: V,
    ) -> Result<V::Value, TokError> {
        match self.peek()? {
            K_SEQ_START => self.deserialize_seq(v),
            K_MAP_START => self.deserialize_map(v),
            _ => Err(TokError),
        }
    }
    fn deserialize_enum<V: Visitor<'de>>(
        self,
        _n: &'static str,
        _variants: &'static [&'static str],
        v: V,
    ) -> Result<V::Value, TokError> {
        match self.peek()? {
            K_STR => {
                let i = self.take(K_STR)?;
                v.visit_enum(UnitOnly { name: self.buf.name[i] })
            }
            K_MAP_START => {
                self.pos += 1;
                let i = self.take(K_STR)?;
                let name = self.buf.name[i];
                let value = v.visit_enum(Tagged { r: &mut *self, name })?;
                self.take(K_MAP_END)?;
                Ok(value)
            }
            _ => Err(TokError),
        }
    }
    fn deserialize_identifier<V: Visitor<'de>>(self, v: V) -> Result<V::Value, TokError> {
        self.deserialize_str(v)
    }
    fn deserialize_ignored_any<V: Visitor<'de>>(self, v: V) -> Result<V::Value, TokError> {
        self.skip()?;
        v.visit_unit()
    }
}

#[cfg(test)]
mod tests {
    use super::*;
    use flatcontainer::impls::deduplicate::{CollapseSequence, ConsecutiveIndexPairs};
    use flatcontainer::impls::index::{IndexList, IndexOptimized, Stride};
    use flatcontainer::{ColumnsRegion, FlatStack, MirrorRegion, OwnedRegion, Push, Region, SliceRegion, StringRegion};

    #[derive(serde::Serialize, serde::Deserialize, PartialEq, Debug)]
    struct Inner {
        a: u8,
        b: Option<u16>,
    }
    #[derive(serde::Serialize, serde::Deserialize, PartialEq, Debug)]
    struct Flat {
        x: u32,
        #[serde(flatten)]
        inner: Inner,
    }
    #[derive(serde::Serialize, serde::Deserialize, PartialEq, Debug)]
    #[serde(untagged)]
    enum Untagged {
        A(u8),
        B(Vec<u8>),
    }
    #[derive(serde::Serialize, serde::Deserialize, PartialEq, Debug)]
    struct WithDefault {
        a: u8,
        #[serde(default, skip_serializing_if = "Option::is_none")]
        b: Option<u8>,
    }

    fn toks(b: &Buf) -> Vec<Tok> {
        (0..b.len).map(|i| b.get(i)).collect()
    }

    #[test]
    fn shapes() {
        let t = to_tokens(&Stride::Striding(3, 4));
        assert_eq!(toks(&t), vec![Tok::MapStart, Tok::Str("Striding"), Tok::SeqStart, Tok::Num(3), Tok::Num(4), Tok::SeqEnd, Tok::MapEnd]);
        let t = to_tokens(&Stride::Empty);
        assert_eq!(toks(&t), vec![Tok::Str("Empty")]);
        for s in [Stride::Empty, Stride::Zero, Stride::Striding(3, 4), Stride::Saturated(1, 2, 3)] {
            let back: Stride = from_tokens(&to_tokens(&s));
            assert_eq!(back, s);
        }
    }

    #[test]
    fn attributes_behave_as_in_a_self_describing_format() {
        let f = Flat { x: 7, inner: Inner { a: 1, b: Some(2) } };
        let t = to_tokens(&f);
        assert_eq!(toks(&t), vec![Tok::MapStart, Tok::Str("x"), Tok::Num(7), Tok::Str("a"), Tok::Num(1), Tok::Str("b"), Tok::Num(2), Tok::MapEnd]);
        assert_eq!(from_tokens::<Flat>(&t), f);
        for u in [Untagged::A(3), Untagged::B(vec![1, 2])] {
            assert_eq!(from_tokens::<Untagged>(&to_tokens(&u)), u);
        }
        for w in [WithDefault { a: 1, b: None }, WithDefault { a: 1, b: Some(9) }] {
            assert_eq!(from_tokens::<WithDefault>(&to_tokens(&w)), w);
        }
    }

    #[test]
    fn regions() {
        let mut r = <ConsecutiveIndexPairs<StringRegion>>::default();
        let i = r.push("aç");
        let c: ConsecutiveIndexPairs<StringRegion> = from_tokens(&to_tokens(&r));
        assert_eq!(c.index(i), "aç");
        let mut c = <ColumnsRegion<MirrorRegion<u8>>>::default();
        let i = c.push([1u8, 2].as_slice());
        let d: ColumnsRegion<MirrorRegion<u8>> = from_tokens(&to_tokens(&c));
        assert_eq!(d.index(i).iter().collect::<Vec<_>>(), vec![1, 2]);
        let l: IndexList<Vec<u32>, Vec<u64>> = IndexList { smol: vec![1, 2], chonk: vec![1 << 40] };
        let m: IndexList<Vec<u32>, Vec<u64>> = from_tokens(&to_tokens(&l));
        assert!(l == m);
        let mut f = FlatStack::<CollapseSequence<ConsecutiveIndexPairs<OwnedRegion<u8>>>, IndexOptimized>::default();
        f.copy([1u8, 2]);
        f.copy([1u8, 2]);
        let g: FlatStack<CollapseSequence<ConsecutiveIndexPairs<OwnedRegion<u8>>>, IndexOptimized> = from_tokens(&to_tokens(&f));
        assert_eq!(g.len(), 2);
        assert_eq!(g.get(1), &[1u8, 2]);
        let _ = SliceRegion::<MirrorRegion<u8>>::default();
    }

    #[test]
    #[should_panic(expected = "TOK: deserialisation failed")]
    fn out_of_range_number_is_a_data_error() {
        let mut b = Buf::new();
        b.put(Tok::Num(300)).unwrap();
        let _: u8 = from_tokens(&b);
    }
}
