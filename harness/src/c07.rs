//! C07 — dictionary codec: exact bytes back or refusal, frequent strings cost 1 byte.  `DictionaryCodec::new_from`
//! (sorting + B-tree inserts) cannot be encoded (DESIGN.md §1.2); decided here: one push/read step from any valid
//! single-entry table state and generation 0 through the public API.  (The heavy-hitter summary `MisraGries` in
//! isolation was tried and dropped: five inserts with one compaction - `sort_by` on symbolic keys - exceed 1500 s.)
use crate::gen::{same_bytes, Bytes};
use crate::sym;
use flatcontainer::impls::codec::{CodecRegion, DictionaryCodec};
use flatcontainer::{Push, Region};

fn used<R: Region>(r: &R) -> usize {
    let mut u = 0usize;
    r.heap_size(|x, _| u += x);
    u
}

/// A region whose dictionary holds one entry of `elen` symbolic bytes at tag `tag`.
fn region_with_entry(tag: u8, elen: usize) -> (CodecRegion<DictionaryCodec>, Bytes<2>) {
    let e = Bytes::<2>::any_len(elen);
    let codec = DictionaryCodec::verif_with_entry(tag, e.as_slice());
    (CodecRegion::verif_with_codec(codec), e)
}

/// One push of arbitrary bytes of concrete length `plen` onto a single-entry dictionary, then read back.
fn step(tag: u8, elen: usize, plen: usize) {
    let (mut r, e) = region_with_entry(tag, elen);
    let p = Bytes::<3>::any_len(plen);
    let before = used(&r);
    // (a literal that starts with the entry's tag must be refused at push - the harness allows exactly that panic)
    cover!(plen > 0 && p.buf[0] == tag, "opt: the pushed bytes start with the entry's tag");
    let idx = r.push(p.as_slice());
    // not refused: must read back exactly
    let got = r.index(idx);
    assert!(got.len() == plen, "C07: read-back length differs from the pushed bytes");
    assert!(same_bytes(got, p.as_slice()), "C07: read-back byte differs from the pushed bytes");
    // a dictionary entry costs exactly one byte
    if p.as_slice() == e.as_slice() {
        assert!(used(&r) == before + 1, "C07: a dictionary entry is not stored in one byte");
    }
    if plen == elen {
        cover!(p.as_slice() == e.as_slice(), "opt: the pushed bytes are the dictionary entry");
    }
    cover!(true, "end reached without refusal");
    sym::forget(r);
}

// @h prop=C07 tier=quick kind=proof allow="cannot represent a literal" inst="CodecRegion<DictionaryCodec>, one entry of 2 symbolic bytes at tag 0" bounds="one push of any 2 bytes (all 256 first-byte values, incl. equal to the entry / starting with the tag)" desc="exact bytes back or refusal; the entry costs 1 byte"
#[cfg_attr(kani, kani::proof, kani::unwind(6))]
pub fn c07_step_tag0_e2_p2() {
    step(0, 2, 2);
}

// @h prop=C07 tier=quick kind=proof allow="cannot represent a literal" inst="CodecRegion<DictionaryCodec>, one entry of 2 symbolic bytes at tag 0" bounds="one push of any single byte" desc="exact bytes back or refusal (a one-byte literal equal to the tag must not read back as the entry)"
#[cfg_attr(kani, kani::proof, kani::unwind(6))]
pub fn c07_step_tag0_e2_p1() {
    step(0, 2, 1);
}

// @h prop=C07 tier=quick kind=proof allow="cannot represent a literal" inst="CodecRegion<DictionaryCodec>, one entry of 1 symbolic byte at tag 2" bounds="one push of any 3 bytes" desc="exact bytes back or refusal; tags 0,1 unassigned"
#[cfg_attr(kani, kani::proof, kani::unwind(6))]
pub fn c07_step_tag2_e1_p3() {
    step(2, 1, 3);
}

// @h prop=C07 tier=quick kind=proof allow="cannot represent a literal" inst="CodecRegion<DictionaryCodec>, one entry of 2 symbolic bytes at tag 1" bounds="one push of the empty byte string" desc="the empty string reads back as the empty string"
#[cfg_attr(kani, kani::proof, kani::unwind(6))]
pub fn c07_step_empty_string() {
    step(1, 2, 0);
}

// @h prop=C07 tier=thorough kind=proof allow="cannot represent a literal" inst="CodecRegion<DictionaryCodec>, one entry of 1 symbolic byte at tag 1" bounds="one push of any 1 byte" desc="exact bytes back or refusal"
#[cfg(feature = "thorough")]
#[cfg_attr(kani, kani::proof, kani::unwind(6))]
pub fn c07_step_tag1_e1_p1() {
    step(1, 1, 1);
}

// @h prop=C07 tier=thorough kind=proof allow="cannot represent a literal" inst="CodecRegion<DictionaryCodec>, one entry of 2 symbolic bytes at tag 2" bounds="one push of any 2 bytes" desc="exact bytes back or refusal"
#[cfg(feature = "thorough")]
#[cfg_attr(kani, kani::proof, kani::unwind(6))]
pub fn c07_step_tag2_e2_p2() {
    step(2, 2, 2);
}

// @h prop=C07 tier=quick kind=proof allow="cannot represent a literal" inst="CodecRegion<DictionaryCodec>, one entry of 2 symbolic bytes at tag 0" bounds="two pushes: the entry itself, then any 2 bytes; first re-read after the second" desc="append-only across literal and coded items; clear then behaves as a fresh region"
#[cfg_attr(kani, kani::proof, kani::unwind(6))]
pub fn c07_two_pushes_then_clear() {
    let (mut r, e) = region_with_entry(0, 2);
    let i1 = r.push(e.as_slice());
    let p = Bytes::<3>::any_len(2);
    sym::assume(p.buf[0] != 0); // the tag collision is the subject of the step harnesses
    let i2 = r.push(p.as_slice());
    assert!(same_bytes(r.index(i1), e.as_slice()) && r.index(i1).len() == 2, "C07: coded item changed by a later push");
    assert!(same_bytes(r.index(i2), p.as_slice()) && r.index(i2).len() == 2, "C07: literal item does not read back");
    r.clear();
    // after clear the dictionary is gone: a literal starting with the old tag is an ordinary literal
    let q = Bytes::<3>::any_len(2);
    let i3 = r.push(q.as_slice());
    let mut d = CodecRegion::<DictionaryCodec>::default();
    let i4 = d.push(q.as_slice());
    assert!(i3 == i4, "C07: index after clear differs from a fresh region's");
    assert!(same_bytes(r.index(i3), q.as_slice()) && r.index(i3).len() == 2, "C07: item after clear does not read back");
    cover!(true, "end reached");
    sym::forget(r);
    sym::forget(d);
}

// @h prop=C07 tier=quick kind=proof inst="CodecRegion<DictionaryCodec>::default() (generation 0, public API only)" bounds="two pushes of any 2 resp. 1 bytes" desc="without a dictionary every non-empty byte string round-trips"
#[cfg_attr(kani, kani::proof, kani::unwind(6))]
pub fn c07_generation0() {
    let mut r = CodecRegion::<DictionaryCodec>::default();
    let p = Bytes::<3>::any_len(2);
    let q = Bytes::<3>::any_len(1);
    let i1 = r.push(p.as_slice());
    let i2 = r.push(q.as_slice());
    assert!(same_bytes(r.index(i1), p.as_slice()) && r.index(i1).len() == 2, "C07: generation-0 item does not read back");
    assert!(same_bytes(r.index(i2), q.as_slice()) && r.index(i2).len() == 1, "C07: generation-0 item does not read back");
    cover!(true, "end reached");
    sym::forget(r);
}

// @h prop=C07 tier=quick kind=proof inst="CodecRegion<DictionaryCodec>::default() (generation 0, public API only)" bounds="one push of the empty byte string" desc="the empty string round-trips"
#[cfg_attr(kani, kani::proof, kani::unwind(6))]
pub fn c07_generation0_empty() {
    let mut r = CodecRegion::<DictionaryCodec>::default();
    let e: [u8; 0] = [];
    let i1 = r.push(e.as_slice());
    assert!(r.index(i1).is_empty(), "C07: the empty string does not read back empty");
    cover!(true, "end reached");
    sym::forget(r);
}
