//! C19 — index compression delivers the documented space bounds.
use crate::gen::Bytes;
use crate::model::{index_optimized_cost, stride_representable};
use crate::sym;
use flatcontainer::impls::deduplicate::ConsecutiveIndexPairs;
use flatcontainer::impls::index::{IndexContainer, IndexOptimized, Stride};
use flatcontainer::impls::storage::Storage;
use flatcontainer::{ColumnsRegion, FlatStack, MirrorRegion, OwnedRegion, Push, Region};

fn used_cap<S: Storage<usize>>(c: &S) -> (usize, usize) {
    let (mut u, mut k) = (0usize, 0usize);
    c.heap_size(|a, b| {
        u += a;
        k += b;
    });
    (u, k)
}

/// `k` unconstrained pushes: the used bytes equal the documented cost computed on the model, and while nothing
/// spilled no capacity is held either.
fn cost_seq<const K: usize>(first_zero: Option<bool>) {
    let vals = sym::words::<K>();
    if let Some(z) = first_zero {
        sym::assume((vals[0] == 0) == z);
    }
    let mut c = IndexOptimized::<Vec<u32>, Vec<u64>>::default();
    let mut i = 0;
    while i < K {
        c.push(vals[i]);
        i += 1;
    }
    let (u, cap) = used_cap(&c);
    let expect = index_optimized_cost(&vals[..]);
    assert!(u == expect, "C19: used bytes differ from the documented cost (free stride prefix, 4 bytes per u32 entry, 8 from the first larger value on)");
    if stride_representable(&vals[..]) {
        assert!(u == 0 && cap == 0, "C19: a stride-representable sequence occupies heap");
    }
    // reachability witnesses; which of the first two can happen depends on the instantiation (with a non-zero first
    // value everything spills), so they are informational ("opt:"), the end of the body is the required one
    cover!(stride_representable(&vals[..]), "opt: whole sequence representable");
    cover!(u > 0, "opt: spilled");
    cover!(true, "end reached");
    sym::forget(c);
}

// @h prop=C19 tier=quick kind=proof engine=both inst="IndexOptimized<Vec<u32>,Vec<u64>>" bounds="2 unconstrained usize pushes" desc="used bytes == documented cost; representable sequences occupy no heap (used and capacity 0)"
#[cfg_attr(kani, kani::proof, kani::unwind(6))]
pub fn c19_cost_seq2() {
    cost_seq::<2>(None);
}

// @h prop=C19 tier=quick kind=proof engine=both timeout=900 inst="IndexOptimized<Vec<u32>,Vec<u64>>" bounds="pushes 0, x, y (x, y unconstrained)" desc="as c19_cost_seq2, three values, first 0 (stride recogniser engaged)"
#[cfg_attr(kani, kani::proof, kani::unwind(6))]
pub fn c19_cost_seq3_zero() {
    cost_seq::<3>(Some(true));
}

// @h prop=C19 tier=thorough kind=proof engine=both inst="IndexOptimized<Vec<u32>,Vec<u64>>" bounds="pushes w, x, y with w != 0" desc="everything spills: 4 bytes per entry until the first value > u32::MAX, 8 from there on"
#[cfg(feature = "thorough")]
#[cfg_attr(kani, kani::proof, kani::unwind(6))]
pub fn c19_cost_seq3_nonzero() {
    cost_seq::<3>(Some(false));
}

// @h prop=C19 tier=thorough kind=proof engine=both timeout=3000 inst="IndexOptimized<Vec<u32>,Vec<u64>>" bounds="pushes 0, x, y, z" desc="as c19_cost_seq3_zero, four values"
#[cfg(feature = "thorough")]
#[cfg_attr(kani, kani::proof, kani::unwind(7))]
pub fn c19_cost_seq4_zero() {
    cost_seq::<4>(Some(true));
}

/// Concrete prefix (mode) then one unconstrained push.
fn cost_after_prefix(prefix: &[usize]) {
    let mut c = IndexOptimized::<Vec<u32>, Vec<u64>>::default();
    let mut w = [0usize; 6];
    let mut n = 0;
    for &p in prefix {
        c.push(p);
        w[n] = p;
        n += 1;
    }
    let x = sym::usize();
    c.push(x);
    w[n] = x;
    n += 1;
    let (u, _) = used_cap(&c);
    assert!(u == index_optimized_cost(&w[..n]), "C19: used bytes differ from the documented cost after a mode prefix");
    cover!(true, "end reached");
    sym::forget(c);
}

// @h prop=C19 tier=quick kind=proof engine=both inst="IndexOptimized in Striding / Saturated mode" bounds="prefix 0,3,6 resp. 0,3,6,6 then one unconstrained push" desc="cost rule across the stride-break and saturation transitions"
#[cfg_attr(kani, kani::proof, kani::unwind(8))]
pub fn c19_cost_mode_strided() {
    cost_after_prefix(&[0, 3, 6]);
    cost_after_prefix(&[0, 3, 6, 6]);
}

// @h prop=C19 tier=quick kind=proof engine=both inst="IndexOptimized spilled (u32 / u64)" bounds="prefix 0,3,5 resp. 0,3,2^40 then one unconstrained push" desc="4 bytes per entry while values fit u32, 8 bytes per entry after the first larger one"
#[cfg_attr(kani, kani::proof, kani::unwind(8))]
pub fn c19_cost_mode_spilled() {
    cost_after_prefix(&[0, 3, 5]);
    cost_after_prefix(&[0, 3, 1 << 40]);
}

// @h prop=C19 tier=quick kind=proof inst="Stride, one step from Striding(1, c) (the dense-index case)" bounds="any c in 2..=isize::MAX, push(c)" desc="the next dense index is absorbed: still a stride, nothing spills - for any number of items"
#[cfg_attr(kani, kani::proof, kani::unwind(2))]
pub fn c19_dense_step() {
    let c = sym::usize();
    sym::assume(c >= 2 && c <= isize::MAX as usize);
    let mut s = Stride::Striding(1, c);
    assert!(s.push(c), "C19: the next dense index is not absorbed by the stride");
    assert!(s == Stride::Striding(1, c + 1), "C19: dense push leaves an unexpected stride state");
    assert!(s.len() == c + 1 && s.index(c) == c, "C19: dense stride reads wrongly");
    cover!(true, "end reached");
}

type Cip = ConsecutiveIndexPairs<OwnedRegion<u8>>;

// @h prop=C19 tier=quick kind=proof inst="FlatStack<ConsecutiveIndexPairs<OwnedRegion<u8>>, IndexOptimized>" bounds="3 items of 2, 0, 3 symbolic bytes" desc="the stack spends zero heap bytes (used and capacity) on its own indices"
#[cfg_attr(kani, kani::proof, kani::unwind(6))]
pub fn c19_flatstack_cip_zero() {
    let items = [Bytes::<3>::any_len(2), Bytes::<3>::any_len(0), Bytes::<3>::any_len(3)];
    let mut fs = FlatStack::<Cip, IndexOptimized>::default();
    let mut twin = Cip::default();
    for b in items.iter() {
        fs.copy(b.as_slice());
        let _ = twin.push(b.as_slice());
    }
    // the region's pairs come first; the trailing pairs are the stack's own index container
    let mut region_pairs = 0usize;
    twin.heap_size(|_, _| region_pairs += 1);
    let mut k = 0usize;
    let mut own_used = 0usize;
    let mut own_cap = 0usize;
    fs.heap_size(|u, c| {
        if k >= region_pairs {
            own_used += u;
            own_cap += c;
        }
        k += 1;
    });
    assert!(k > region_pairs, "C19: FlatStack does not report its index container");
    assert!(own_used == 0 && own_cap == 0, "C19: FlatStack over a dense-index region spends heap on its own indices");
    cover!(true, "end reached");
    sym::forget((fs, twin));
}

// @h prop=C19 tier=quick kind=proof inst="FlatStack<ColumnsRegion<MirrorRegion<u8>>, IndexOptimized>" bounds="3 rows of 2, 0, 3 symbolic cells" desc="the stack spends zero heap bytes on its own indices"
#[cfg_attr(kani, kani::proof, kani::unwind(6))]
pub fn c19_flatstack_columns_zero() {
    type C = ColumnsRegion<MirrorRegion<u8>>;
    let items = [Bytes::<3>::any_len(2), Bytes::<3>::any_len(0), Bytes::<3>::any_len(3)];
    let mut fs = FlatStack::<C, IndexOptimized>::default();
    let mut twin = C::default();
    for b in items.iter() {
        fs.copy(b.as_slice());
        let _ = twin.push(b.as_slice());
    }
    let mut region_pairs = 0usize;
    twin.heap_size(|_, _| region_pairs += 1);
    let mut k = 0usize;
    let mut own = 0usize;
    fs.heap_size(|u, c| {
        if k >= region_pairs {
            own += u + c;
        }
        k += 1;
    });
    assert!(k > region_pairs && own == 0, "C19: FlatStack over a columns region spends heap on its own indices");
    cover!(true, "end reached");
    sym::forget((fs, twin));
}

// @h memw=4 prop=C19 tier=quick kind=proof inst="FlatStack<ConsecutiveIndexPairs<OwnedRegion<u8>>, IndexOptimized>: reserve and extend on a populated stack" bounds="2 copies, reserve(4), extend of 2 more items (2, 1, 0, 3 symbolic bytes)" desc="pre-sizing and extending a stack whose indices are a pure stride still spends zero heap bytes (used and capacity) on its own indices"
#[cfg_attr(kani, kani::proof, kani::unwind(6))]
pub fn c19_flatstack_reserve_extend_zero() {
    let items = [Bytes::<3>::any_len(2), Bytes::<3>::any_len(1), Bytes::<3>::any_len(0), Bytes::<3>::any_len(3)];
    let mut fs = FlatStack::<Cip, IndexOptimized>::default();
    let mut twin = Cip::default();
    fs.copy(items[0].as_slice());
    fs.copy(items[1].as_slice());
    fs.reserve(4);
    fs.extend([items[2].as_slice(), items[3].as_slice()]);
    for b in items.iter() {
        let _ = twin.push(b.as_slice());
    }
    assert!(fs.len() == 4 && fs.get(3).len() == 3 && fs.get(3)[2] == items[3].buf[2], "C19: stack reads differently after reserve/extend");
    let mut region_pairs = 0usize;
    twin.heap_size(|_, _| region_pairs += 1);
    let mut k = 0usize;
    let mut own = 0usize;
    fs.heap_size(|u, c| {
        if k >= region_pairs {
            own += u + c;
        }
        k += 1;
    });
    assert!(k > region_pairs && own == 0, "C19: reserve/extend made a dense-index FlatStack spend heap on its own indices");
    cover!(true, "end reached");
    sym::forget((fs, twin));
}

/// `reserve` on a container whose contents are stride-representable (in every such mode) must not make it hold heap,
/// and the sequence continued afterwards is still free.
fn indexopt_reserve_free(prefix: &[usize], next: usize) {
    let mut c = IndexOptimized::<Vec<u32>, Vec<u64>>::default();
    for &p in prefix {
        c.push(p);
    }
    Storage::reserve(&mut c, 4);
    let (u, cap) = used_cap(&c);
    assert!(u == 0 && cap == 0, "C19: reserve made a stride-representable container hold heap");
    c.push(next);
    let (u, cap) = used_cap(&c);
    assert!(u == 0 && cap == 0, "C19: a stride-representable sequence occupies heap after reserve");
    assert!(Storage::len(&c) == prefix.len() + 1 && c.index(prefix.len()) == next, "C19: container reads differently after reserve");
    sym::forget(c);
}

// @h prop=C19 tier=quick kind=proof inst="IndexOptimized: reserve in every stride-representable mode" bounds="empty / [0] / [0,3,6] (striding) / [0,3,6,6] and [0,3,6,6,6] (saturated), reserve(4), then the value that continues the sequence" desc="no heap (used and capacity 0) after reserve and after continuing the sequence, in each mode"
#[cfg_attr(kani, kani::proof, kani::unwind(8))]
pub fn c19_indexopt_reserve_in_every_mode() {
    indexopt_reserve_free(&[], 0);
    indexopt_reserve_free(&[0], 3);
    indexopt_reserve_free(&[0, 3, 6], 9);
    indexopt_reserve_free(&[0, 3, 6], 6);
    indexopt_reserve_free(&[0, 3, 6, 6], 6);
    indexopt_reserve_free(&[0, 3, 6, 6, 6], 6);
    cover!(true, "end reached");
}

// @h prop=C19 tier=quick kind=proof inst="IndexOptimized::with_capacity and FlatStack::with_capacity over dense indices" bounds="with_capacity(4), then 0,3,6,6 resp. three copies of symbolic bytes" desc="a capacity hint does not make a stride-representable sequence hold heap (used and capacity 0)"
#[cfg_attr(kani, kani::proof, kani::unwind(8))]
pub fn c19_with_capacity_is_free() {
    let mut c = <IndexOptimized<Vec<u32>, Vec<u64>> as Storage<usize>>::with_capacity(4);
    let (u, cap) = used_cap(&c);
    assert!(u == 0 && cap == 0, "C19: an empty container built with a capacity hint holds heap");
    for v in [0usize, 3, 6, 6] {
        c.push(v);
    }
    let (u, cap) = used_cap(&c);
    assert!(u == 0 && cap == 0, "C19: a stride-representable sequence occupies heap in a container built with a capacity hint");
    let items = [Bytes::<3>::any_len(2), Bytes::<3>::any_len(1), Bytes::<3>::any_len(3)];
    let mut fs = FlatStack::<Cip, IndexOptimized>::with_capacity(4);
    let mut twin = Cip::default();
    for b in items.iter() {
        fs.copy(b.as_slice());
        let _ = twin.push(b.as_slice());
    }
    let mut region_pairs = 0usize;
    twin.heap_size(|_, _| region_pairs += 1);
    let (mut k, mut own) = (0usize, 0usize);
    fs.heap_size(|u, c| {
        if k >= region_pairs {
            own += u + c;
        }
        k += 1;
    });
    assert!(k > region_pairs && own == 0, "C19: FlatStack::with_capacity made a dense-index stack spend heap on its own indices");
    cover!(true, "end reached");
    sym::forget((c, fs, twin));
}
