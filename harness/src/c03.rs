//! C03 — FlatStack is a faithful append-only sequence for every index container.
use crate::gen::Bytes;
use crate::sym;
use flatcontainer::impls::deduplicate::ConsecutiveIndexPairs;
use flatcontainer::impls::index::{IndexContainer, IndexList, IndexOptimized};
use flatcontainer::{FlatStack, MirrorRegion, OwnedRegion, Push, Region};

type IL = IndexList<Vec<u32>, Vec<u64>>;
type Cip = ConsecutiveIndexPairs<OwnedRegion<u8>>;

/// `k` copies of symbolic usizes into `FlatStack<MirrorRegion<usize>, S>` (the stored indices *are* the values):
/// len / is_empty after every copy, get(i) at every position, iteration, cloned iterator, size hints.
fn mirror_seq<S: IndexContainer<usize>, const K: usize>(exact_hint: bool) {
    let vals = sym::words::<K>();
    let mut fs = FlatStack::<MirrorRegion<usize>, S>::default();
    assert!(fs.is_empty() && fs.len() == 0, "C03: default stack not empty");
    let mut i = 0;
    while i < K {
        fs.copy(vals[i]);
        assert!(fs.len() == i + 1, "C03: len does not count the copies");
        assert!(!fs.is_empty(), "C03: is_empty after a copy");
        i += 1;
    }
    let mut j = 0;
    while j < K {
        assert!(fs.get(j) == vals[j], "C03: get(j) is not the j-th copied value");
        j += 1;
    }
    let mut it = fs.iter();
    let it2 = it.clone();
    let mut j = 0;
    while j < K {
        let (lo, hi) = it.size_hint();
        assert!(lo <= K - j && hi.map_or(true, |h| h >= K - j), "C03: size_hint is not a valid bound");
        if exact_hint {
            assert!(lo == K - j && hi == Some(K - j), "C03: size_hint of an exact-size iterator is not exact");
        }
        assert!(it.next() == Some(vals[j]), "C03: iteration yields a different element");
        j += 1;
    }
    assert!(it.next().is_none(), "C03: iteration yields too many elements");
    // the clone taken before iterating starts from the beginning
    let mut it2 = it2;
    assert!(it2.next() == Some(vals[0]), "C03: cloned iterator does not restart at the first element");
    drop(it);
    drop(it2);
    cover!(true, "end reached");
    sym::forget(fs);
}

// @h prop=C03 tier=quick kind=proof inst="FlatStack<MirrorRegion<usize>, Vec<usize>>" bounds="3 copies of unconstrained usize" desc="len, is_empty, get, iter, cloned iter, exact size hints vs the sequence of copies"
#[cfg_attr(kani, kani::proof, kani::unwind(6))]
pub fn c03_mirror_vec() {
    mirror_seq::<Vec<usize>, 3>(true);
}

// @h prop=C03 tier=quick kind=proof engine=both inst="FlatStack<MirrorRegion<usize>, IndexOptimized>" bounds="2 copies of unconstrained usize (the stored indices are the values: stride/spill/u64 are all in the query)" desc="as c03_mirror_vec, size hints only as valid bounds"
#[cfg_attr(kani, kani::proof, kani::unwind(6))]
pub fn c03_mirror_opt2() {
    mirror_seq::<IndexOptimized, 2>(false);
}

// @h prop=C03 tier=thorough kind=proof engine=both inst="FlatStack<MirrorRegion<usize>, IndexOptimized>" bounds="3 copies of unconstrained usize" desc="as c03_mirror_opt2, longer"
#[cfg(feature = "thorough")]
#[cfg_attr(kani, kani::proof, kani::unwind(6))]
pub fn c03_mirror_opt3() {
    mirror_seq::<IndexOptimized, 3>(false);
}

// @h prop=C03 tier=quick kind=proof engine=both inst="FlatStack<MirrorRegion<usize>, IndexList<Vec<u32>,Vec<u64>>>" bounds="2 copies of unconstrained usize" desc="as c03_mirror_vec, size hints only as valid bounds"
#[cfg_attr(kani, kani::proof, kani::unwind(6))]
pub fn c03_mirror_list2() {
    mirror_seq::<IL, 2>(false);
}

// @h prop=C03 tier=thorough kind=proof engine=both inst="FlatStack<MirrorRegion<usize>, IndexList<Vec<u32>,Vec<u64>>>" bounds="3 copies of unconstrained usize" desc="as c03_mirror_list2, longer"
#[cfg(feature = "thorough")]
#[cfg_attr(kani, kani::proof, kani::unwind(6))]
pub fn c03_mirror_list3() {
    mirror_seq::<IL, 3>(false);
}

/// Byte-slice stacks: copy / extend / from_iter are the same sequence; clear empties; clone is independent.
fn bytes_ops<R, S>()
where
    R: Region<Index = S::Idx> + for<'a> Push<&'a [u8]> + Clone,
    for<'a> R: Region<ReadItem<'a> = &'a [u8]>,
    S: StackIdx<R>,
{
    let a = Bytes::<3>::any_len(2);
    let b = Bytes::<3>::any_len(0);
    let c = Bytes::<3>::any_len(3);
    let mut f1 = FlatStack::<R, S::C>::default();
    f1.copy(a.as_slice());
    f1.copy(b.as_slice());
    f1.copy(c.as_slice());
    let mut f2 = FlatStack::<R, S::C>::default();
    f2.extend([a.as_slice(), b.as_slice(), c.as_slice()]);
    let f3: FlatStack<R, S::C> = [a.as_slice(), b.as_slice(), c.as_slice()].into_iter().collect();
    assert!(f1.len() == 3 && f2.len() == 3 && f3.len() == 3, "C03: copy/extend/from_iter disagree on len");
    let j = sym::usize();
    sym::assume(j < 3);
    let m = if j == 0 { &a } else if j == 1 { &b } else { &c };
    assert!(m.same_as(f1.get(j)), "C03: get(j) after copy is not the j-th value");
    assert!(m.same_as(f2.get(j)), "C03: get(j) after extend is not the j-th value");
    assert!(m.same_as(f3.get(j)), "C03: get(j) after from_iter is not the j-th value");
    // reserve changes nothing
    f1.reserve(4);
    assert!(f1.len() == 3 && m.same_as(f1.get(j)), "C03: reserve changed the stack");
    // clone is independent
    let mut k = f1.clone();
    k.copy(c.as_slice());
    assert!(f1.len() == 3 && k.len() == 4, "C03: clone shares its length with the original");
    assert!(c.same_as(k.get(3)) && m.same_as(k.get(j)), "C03: clone does not read the copied values");
    // clear empties; the stack is usable again
    f1.clear();
    assert!(f1.len() == 0 && f1.is_empty() && f1.iter().next().is_none(), "C03: clear does not empty the stack");
    f1.copy(c.as_slice());
    assert!(f1.len() == 1 && c.same_as(f1.get(0)), "C03: first copy after clear does not read back");
    assert!(k.len() == 4 && m.same_as(k.get(j)), "C03: clearing the original changed the clone");
    cover!(true, "end reached");
    sym::forget((f1, f2, f3, k));
}

/// Index-container choice for a region (helper so that one body serves several instantiations).
pub trait StackIdx<R: Region> {
    type Idx;
    type C: IndexContainer<R::Index> + Clone;
}
pub struct VecPairs;
impl StackIdx<OwnedRegion<u8>> for VecPairs {
    type Idx = (usize, usize);
    type C = Vec<(usize, usize)>;
}
pub struct OptDense;
impl StackIdx<Cip> for OptDense {
    type Idx = usize;
    type C = IndexOptimized;
}
pub struct ListDense;
impl StackIdx<Cip> for ListDense {
    type Idx = usize;
    type C = IL;
}

// @h prop=C03 tier=quick kind=proof inst="FlatStack<OwnedRegion<u8>, Vec<(usize,usize)>>" bounds="3 values of 2, 0, 3 symbolic bytes; copy x3 / extend / from_iter; reserve; clone + copy; clear + copy" desc="extend and from_iter equal repeated copy; reserve invisible; clone independent; clear empties"
#[cfg_attr(kani, kani::proof, kani::unwind(6))]
pub fn c03_ops_owned_vec() {
    bytes_ops::<OwnedRegion<u8>, VecPairs>();
}

// @h memw=7 prop=C03 tier=quick kind=proof inst="FlatStack<ConsecutiveIndexPairs<OwnedRegion<u8>>, IndexOptimized>" bounds="3 values of 2, 0, 3 symbolic bytes; copy x3 / extend / from_iter; reserve; clone + copy; clear + copy" desc="as c03_ops_owned_vec with the stride-optimised index container over dense indices"
#[cfg_attr(kani, kani::proof, kani::unwind(6))]
pub fn c03_ops_cip_opt() {
    bytes_ops::<Cip, OptDense>();
}

// @h prop=C03 tier=thorough kind=proof inst="FlatStack<ConsecutiveIndexPairs<OwnedRegion<u8>>, IndexList>" bounds="3 values of 2, 0, 3 symbolic bytes; same operations" desc="as c03_ops_owned_vec with the u32/u64 list"
#[cfg(feature = "thorough")]
#[cfg_attr(kani, kani::proof, kani::unwind(6))]
pub fn c03_ops_cip_list() {
    bytes_ops::<Cip, ListDense>();
}

/// get(i) for i >= len must panic (never return some other element).
fn get_oob<S: IndexContainer<usize>>() {
    let vals = sym::words::<2>();
    let mut fs = FlatStack::<MirrorRegion<usize>, S>::default();
    fs.copy(vals[0]);
    fs.copy(vals[1]);
    let i = sym::usize();
    sym::assume(i >= 2);
    let _ = fs.get(i);
    assert!(false, "MUST-PANIC: FlatStack::get(i >= len) returned an element");
}

// @h prop=C03 tier=quick kind=must_panic inst="FlatStack<MirrorRegion<usize>, Vec<usize>>" bounds="2 copies, any i >= 2" desc="get(i >= len) panics"
#[cfg_attr(kani, kani::proof, kani::unwind(4))]
pub fn c03_get_oob_vec() {
    get_oob::<Vec<usize>>();
}

// @h prop=C03 tier=quick kind=must_panic engine=both inst="FlatStack<MirrorRegion<usize>, IndexOptimized>" bounds="2 copies of unconstrained usize, any i >= 2" desc="get(i >= len) panics in every internal mode"
#[cfg_attr(kani, kani::proof, kani::unwind(4))]
pub fn c03_get_oob_opt() {
    get_oob::<IndexOptimized>();
}

// @h prop=C03 tier=quick kind=must_panic engine=both inst="FlatStack<MirrorRegion<usize>, IndexList>" bounds="2 copies of unconstrained usize, any i >= 2" desc="get(i >= len) panics"
#[cfg_attr(kani, kani::proof, kani::unwind(4))]
pub fn c03_get_oob_list() {
    get_oob::<IL>();
}

// @h prop=C03 tier=quick kind=proof engine=both inst="FlatStack<MirrorRegion<usize>, IndexOptimized>: clear after arbitrary values" bounds="2 copies of unconstrained usize (first value zero or not: strided or fully spilled), clear, 1 copy" desc="clear empties the stack whatever representation its index container is in: len 0, is_empty, no elements; the next copy is element 0"
#[cfg_attr(kani, kani::proof, kani::unwind(6))]
pub fn c03_mirror_opt_clear() {
    let vals = sym::words::<3>();
    let mut fs = FlatStack::<MirrorRegion<usize>, IndexOptimized>::default();
    fs.copy(vals[0]);
    fs.copy(vals[1]);
    fs.clear();
    assert!(fs.len() == 0 && fs.is_empty(), "C03: clear does not empty the stack");
    assert!(fs.iter().next().is_none(), "C03: a cleared stack still yields elements");
    fs.copy(vals[2]);
    assert!(fs.len() == 1 && fs.get(0) == vals[2], "C03: first copy after clear is not element 0");
    cover!(vals[0] != 0, "history starting with a non-zero value (nothing strided)");
    sym::forget(fs);
}

// @h memw=5 prop=C03 tier=quick kind=proof inst="FlatStack<OwnedRegion<u8>, Vec<(usize,usize)>>: extend / from_iter fed by iterators WITHOUT a useful size hint (filter: lower bound 0)" bounds="2 values of 2 and 1 symbolic bytes through `.filter(|_| true)`; extend onto an empty and onto a non-empty stack; collect" desc="extend and from_iter are repeated copy whatever the iterator's size hint says"
#[cfg_attr(kani, kani::proof, kani::unwind(6))]
pub fn c03_extend_unsized_iterator() {
    type F = FlatStack<OwnedRegion<u8>, Vec<(usize, usize)>>;
    let a = Bytes::<3>::any_len(2);
    let b = Bytes::<3>::any_len(1);
    let mut f = F::default();
    f.extend([a.as_slice(), b.as_slice()].into_iter().filter(|_| true));
    assert!(f.len() == 2 && !f.is_empty(), "C03: extend from an iterator with size hint 0 dropped items");
    assert!(a.same_as(f.get(0)) && b.same_as(f.get(1)), "C03: extend from an iterator with size hint 0 stored other items");
    f.extend([b.as_slice()].into_iter().filter(|_| true));
    assert!(f.len() == 3 && b.same_as(f.get(2)) && a.same_as(f.get(0)), "C03: extend onto a non-empty stack is not repeated copy");
    let g: F = [a.as_slice(), b.as_slice()].into_iter().filter(|_| true).collect();
    assert!(g.len() == 2 && a.same_as(g.get(0)) && b.same_as(g.get(1)), "C03: from_iter of an iterator with size hint 0 is not repeated copy");
    cover!(true, "end reached");
    sym::forget((f, g));
}

// @h memw=6 prop=C03 tier=quick kind=proof inst="FlatStack<ConsecutiveIndexPairs<OwnedRegion<u8>>, IndexOptimized>: extend fed by ANOTHER stack's iterator" bounds="source holds 2 values of 2 and 1 symbolic bytes; target empty, then extended twice" desc="stack-to-stack extend copies every item in order (the index containers' iterators give no size hint)"
#[cfg_attr(kani, kani::proof, kani::unwind(6))]
pub fn c03_extend_from_stack() {
    type F = FlatStack<Cip, IndexOptimized>;
    let a = Bytes::<3>::any_len(2);
    let b = Bytes::<3>::any_len(1);
    let mut src = F::default();
    src.copy(a.as_slice());
    src.copy(b.as_slice());
    let mut f = F::default();
    f.extend(src.iter());
    assert!(f.len() == 2, "C03: extend from another stack's iterator dropped items");
    assert!(a.same_as(f.get(0)) && b.same_as(f.get(1)), "C03: extend from another stack's iterator stored other items");
    f.extend(&src);
    assert!(f.len() == 4 && a.same_as(f.get(2)) && b.same_as(f.get(3)) && a.same_as(f.get(0)), "C03: second extend is not repeated copy");
    let mut n = 0usize;
    for item in f.iter() {
        assert!(if n % 2 == 0 { a.same_as(item) } else { b.same_as(item) }, "C03: iteration order differs from copy order");
        n += 1;
    }
    assert!(n == 4, "C03: iteration yields a different number of items than len");
    cover!(true, "end reached");
    sym::forget((f, src));
}

// @h prop=C03 tier=quick kind=proof inst="FlatStack<MirrorRegion<usize>, IndexOptimized> iterator: next() x a, then nth(k), then the rest" bounds="copies 0,1,2 (strided indices) then 7, 3 (spilled; concrete values); a <= 3, k <= 4 symbolic" desc="iteration through nth / skip agrees with get(i): nth(k) is item a+k or None, the remainder follows in order, size hints stay valid"
#[cfg_attr(kani, kani::proof, kani::unwind(8))]
pub fn c03_mirror_opt_iter_jumps() {
    let m = [0usize, 1, 2, 7, 3];
    let mut fs = FlatStack::<MirrorRegion<usize>, IndexOptimized>::default();
    let mut j = 0;
    while j < 5 {
        fs.copy(m[j]);
        j += 1;
    }
    let a = sym::usize();
    let k = sym::usize();
    sym::assume(a <= 3 && k <= 4);
    let mut it = fs.iter();
    let mut j = 0;
    while j < a {
        assert!(it.next() == Some(m[j]), "C03: iteration yields a different item than was copied");
        j += 1;
    }
    let got = it.nth(k);
    let mut pos = a + k;
    assert!(got == if pos < 5 { Some(m[pos]) } else { None }, "C03: iter.nth(k) is not the item k positions ahead / None");
    pos += 1;
    let (lo, hi) = it.size_hint();
    let rest = if pos < 5 { 5 - pos } else { 0 };
    assert!(lo <= rest && hi.map_or(true, |h| h >= rest), "C03: size hint after nth is not a valid bound");
    while pos < 5 {
        assert!(it.next() == Some(m[pos]), "C03: after nth the iterator replays or skips items");
        pos += 1;
    }
    assert!(it.next().is_none(), "C03: after nth the iterator yields too many items");
    drop(it);
    cover!(true, "end reached");
    sym::forget(fs);
}
