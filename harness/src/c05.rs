//! C05 — index containers store arbitrary usize sequences faithfully and never panic.
use crate::model::stride_representable;
use crate::sym;
use flatcontainer::impls::index::{IndexContainer, IndexList, IndexOptimized, Stride};
use flatcontainer::impls::storage::Storage;

const K: usize = 3;
const KT: usize = 5;

/// Sequence harness for `Stride`: `k` unconstrained pushes with a solver-chosen `clear` point.
fn stride_seq<const N: usize>(clear_at: usize) {
    let vals = sym::words::<N>();
    let mut s = Stride::default();
    let mut m = [0usize; N];
    let mut n = 0usize;
    let mut i = 0;
    while i < N {
        if i == clear_at {
            s.clear();
            n = 0;
            assert!(s.is_empty() && s.len() == 0, "C05: Stride not empty after clear");
        }
        let pre = s;
        m[n] = vals[i];
        let expect = stride_representable(&m[..n + 1]);
        let got = s.push(vals[i]);
        assert!(got == expect, "C05: Stride::push acceptance differs from the documented rule");
        if got {
            n += 1;
        } else {
            assert!(s == pre, "C05: Stride state changed by a rejected push");
        }
        assert!(s.len() == n, "C05: Stride::len differs from the number of accepted pushes");
        assert!(s.is_empty() == (n == 0), "C05: Stride::is_empty wrong");
        if n > 0 {
            let j = sym::usize();
            sym::assume(j < n);
            assert!(s.index(j) == m[j], "C05: Stride::index(j) differs from the j-th accepted value");
        }
        i += 1;
    }
    // iteration agrees with the sequence
    let mut it = s.iter();
    let mut j = 0;
    while j < N {
        let x = it.next();
        if j < n {
            assert!(x == Some(m[j]), "C05: Stride::iter yields a different element");
        } else {
            assert!(x.is_none(), "C05: Stride::iter yields too many elements");
        }
        j += 1;
    }
    cover!(n >= 1, "end reached with an accepted push");
}

// @h prop=C05 tier=quick kind=proof inst="Stride" bounds="3 unconstrained usize pushes from Empty, no clear" desc="acceptance rule, untouched-on-reject, len/is_empty/index/iter vs model"
#[cfg_attr(kani, kani::proof, kani::unwind(5))]
pub fn c05_stride_seq3() {
    stride_seq::<K>(K);
}

// @h prop=C05 tier=quick kind=proof inst="Stride" bounds="3 unconstrained usize pushes, clear before the 3rd push" desc="as c05_stride_seq3 with a clear in the middle (state fully reset)"
#[cfg_attr(kani, kani::proof, kani::unwind(5))]
pub fn c05_stride_seq3_clear() {
    stride_seq::<K>(2);
}

// @h prop=C05 tier=thorough kind=proof inst="Stride" bounds="5 unconstrained usize pushes from Empty" desc="as c05_stride_seq3, longer"
#[cfg(feature = "thorough")]
#[cfg_attr(kani, kani::proof, kani::unwind(7))]
pub fn c05_stride_seq5() {
    stride_seq::<KT>(KT);
}

// @h prop=C05 tier=thorough kind=proof inst="Stride" bounds="5 unconstrained usize pushes, clear before the 3rd push" desc="as c05_stride_seq5 with a clear in the middle"
#[cfg(feature = "thorough")]
#[cfg_attr(kani, kani::proof, kani::unwind(7))]
pub fn c05_stride_seq5_clear() {
    stride_seq::<KT>(2);
}

/// One push from an arbitrary *valid* `Striding` / `Saturated` state (covers histories of any length).
/// Invariant of reachable states: `c >= 2`, `s*(c-1)` does not overflow (it is the last stored value),
/// `c, r <= isize::MAX` (a state needs that many pushes to be reached), `r >= 1` when saturated.
fn stride_step(saturated: bool) {
    let s = sym::usize();
    let c = sym::usize();
    let r = sym::usize();
    sym::assume(c >= 2 && c <= isize::MAX as usize);
    sym::assume(r >= 1 && r <= isize::MAX as usize);
    let last = s.checked_mul(c - 1);
    sym::assume(last.is_some());
    let last = last.unwrap();
    let pre = if saturated { Stride::Saturated(s, c, r) } else { Stride::Striding(s, c) };
    let mut st = pre;
    let item = sym::usize();
    // documented rule on the abstract sequence 0, s, .., s(c-1), last^r; the expected post-state is written down
    // structurally (every 64x64 multiplication in the harness costs minutes, so elements are not re-read through
    // `index` here - `index` is decided by the sequence harnesses)
    let expect = if saturated {
        if item == last { Some(Stride::Saturated(s, c, r + 1)) } else { None }
    } else if s.checked_mul(c) == Some(item) {
        Some(Stride::Striding(s, c + 1))
    } else if item == last {
        Some(Stride::Saturated(s, c, 1))
    } else {
        None
    };
    let got = st.push(item);
    match expect {
        Some(post) => {
            assert!(got, "C05: Stride::push (one step) rejects an element the documented rule accepts");
            assert!(st == post, "C05: Stride::push (one step) reaches an unexpected state");
            assert!(st.len() == pre.len() + 1, "C05: accepted push did not grow len by one");
        }
        None => {
            assert!(!got, "C05: Stride::push (one step) accepts an element the documented rule rejects");
            assert!(st == pre, "C05: Stride state changed by a rejected push");
        }
    }
    cover!(true, "end reached");
}

// @h prop=C05 tier=thorough kind=proof timeout=3000 inst="Stride::Striding(s,c)" bounds="one push from any valid Striding state, all fields and the item full 64-bit" desc="one-step inductive obligation: acceptance rule, state untouched on reject, earlier elements unchanged"
#[cfg(feature = "thorough")]
#[cfg_attr(kani, kani::proof, kani::unwind(2))]
pub fn c05_stride_step_striding() {
    stride_step(false);
}

// @h prop=C05 tier=thorough kind=proof timeout=3000 inst="Stride::Saturated(s,c,r)" bounds="one push from any valid Saturated state, all fields and the item full 64-bit" desc="one-step inductive obligation"
#[cfg(feature = "thorough")]
#[cfg_attr(kani, kani::proof, kani::unwind(2))]
pub fn c05_stride_step_saturated() {
    stride_step(true);
}

/// Sequence harness for a full index container: pushes (or one `extend`) of unconstrained values, one concrete clear
/// point (`usize::MAX`: none).  All earlier positions are re-read after every push (concrete positions: the container's
/// internal shape is what is symbolic here, and path-wise exploration folds concrete positions away).
fn container_seq<C: IndexContainer<usize>, const N: usize>(c: C, use_extend: bool, clear_at: usize) {
    container_seq_split::<C, N>(c, use_extend, clear_at, None)
}

/// `first_zero`: optionally split the input space on "first value is 0" (the stride recogniser only engages then).
fn container_seq_split<C: IndexContainer<usize>, const N: usize>(mut c: C, use_extend: bool, clear_at: usize, first_zero: Option<bool>) {
    let vals = sym::words::<N>();
    if let Some(z) = first_zero {
        sym::assume((vals[0] == 0) == z);
    }
    let mut m = [0usize; N];
    let mut n = 0usize;
    if use_extend {
        c.extend(vals);
        m = vals;
        n = N;
    } else {
        let mut i = 0;
        while i < N {
            if i == clear_at {
                Storage::clear(&mut c);
                n = 0;
                assert!(Storage::is_empty(&c) && Storage::len(&c) == 0, "C05: container not empty after clear");
            }
            c.push(vals[i]);
            m[n] = vals[i];
            n += 1;
            assert!(Storage::len(&c) == n, "C05: len differs from the number of pushes");
            assert!(!Storage::is_empty(&c), "C05: is_empty after a push");
            i += 1;
        }
    }
    assert!(Storage::len(&c) == n, "C05: len differs from the number of pushes");
    // every position is read back once, at the end (shorter prefixes are separate harnesses: re-reading after every
    // push multiplies the paths of the path-wise engine without deciding anything new)
    let mut j = 0;
    while j < n {
        assert!(c.index(j) == m[j], "C05: index(j) differs from the j-th pushed value");
        j += 1;
    }
    let mut it = c.iter();
    let mut j = 0;
    while j < N {
        let x = it.next();
        if j < n {
            assert!(x == Some(m[j]), "C05: iter yields a different element");
        } else {
            assert!(x.is_none(), "C05: iter yields too many elements");
        }
        j += 1;
    }
    assert!(it.next().is_none(), "C05: iter yields too many elements");
    drop(it);
    cover!(true, "end reached");
    sym::forget(c);
}

// @h prop=C05 tier=thorough kind=proof engine=paths inst="IndexOptimized<Vec<u32>,Vec<u64>>" bounds="pushes 0, x, y with x, y unconstrained usize, from empty" desc="len/is_empty/index/iter vs model across stride->spill and u32->u64 switches (half of the input space: first value 0)"
#[cfg(feature = "thorough")]
#[cfg_attr(kani, kani::proof, kani::unwind(5))]
pub fn c05_indexopt_seq3_zero() {
    container_seq_split::<IndexOptimized, K>(IndexOptimized::default(), false, usize::MAX, Some(true));
}

// @h prop=C05 tier=quick kind=proof engine=both inst="IndexOptimized<Vec<u32>,Vec<u64>>" bounds="2 unconstrained usize pushes from empty" desc="prefix length 2 of c05_indexopt_seq3_*"
#[cfg_attr(kani, kani::proof, kani::unwind(5))]
pub fn c05_indexopt_seq2() {
    container_seq::<IndexOptimized, 2>(IndexOptimized::default(), false, usize::MAX);
}

// @h prop=C05 tier=quick kind=proof engine=both inst="IndexList<Vec<u32>,Vec<u64>>" bounds="2 unconstrained usize pushes from empty" desc="prefix length 2 of c05_indexlist_seq3"
#[cfg_attr(kani, kani::proof, kani::unwind(5))]
pub fn c05_indexlist_seq2() {
    container_seq::<IndexList<Vec<u32>, Vec<u64>>, 2>(IndexList::default(), false, usize::MAX);
}

// @h prop=C05 tier=thorough kind=proof engine=paths inst="IndexOptimized<Vec<u32>,Vec<u64>>" bounds="pushes w, x, y unconstrained usize with w != 0, from empty" desc="other half of the input space: the stride recogniser rejects at once, everything spills"
#[cfg(feature = "thorough")]
#[cfg_attr(kani, kani::proof, kani::unwind(5))]
pub fn c05_indexopt_seq3_nonzero() {
    container_seq_split::<IndexOptimized, K>(IndexOptimized::default(), false, usize::MAX, Some(false));
}

// @h prop=C05 tier=thorough kind=proof engine=both inst="IndexOptimized" bounds="one extend of 3 unconstrained values" desc="extend == repeated push"
#[cfg(feature = "thorough")]
#[cfg_attr(kani, kani::proof, kani::unwind(5))]
pub fn c05_indexopt_extend3() {
    container_seq::<IndexOptimized, K>(IndexOptimized::default(), true, usize::MAX);
}

// @h prop=C05 tier=quick kind=proof engine=both inst="IndexOptimized" bounds="one extend of 2 unconstrained values (a first value the stride rejects followed by one it accepts is in the query)" desc="extend == repeated push: order, len, index, iter vs model"
#[cfg_attr(kani, kani::proof, kani::unwind(5))]
pub fn c05_indexopt_extend2() {
    container_seq::<IndexOptimized, 2>(IndexOptimized::default(), true, usize::MAX);
}

// @h prop=C05 tier=quick kind=proof engine=both inst="IndexList<Vec<u32>,Vec<u64>>" bounds="3 unconstrained usize pushes" desc="u32/u64 split faithful, large-before-small and small-before-large"
#[cfg_attr(kani, kani::proof, kani::unwind(5))]
pub fn c05_indexlist_seq3() {
    container_seq::<IndexList<Vec<u32>, Vec<u64>>, K>(IndexList::default(), false, usize::MAX);
}

// @h prop=C05 tier=thorough kind=proof engine=both inst="IndexList<Vec<u32>,Vec<u64>>" bounds="4 unconstrained usize pushes" desc="as c05_indexlist_seq3, longer"
#[cfg(feature = "thorough")]
#[cfg_attr(kani, kani::proof, kani::unwind(6))]
pub fn c05_indexlist_seq4() {
    container_seq::<IndexList<Vec<u32>, Vec<u64>>, 4>(IndexList::default(), false, usize::MAX);
}

// @h prop=C05 tier=quick kind=proof engine=both inst="IndexList" bounds="one extend of 3 unconstrained values" desc="extend == repeated push"
#[cfg_attr(kani, kani::proof, kani::unwind(5))]
pub fn c05_indexlist_extend3() {
    container_seq::<IndexList<Vec<u32>, Vec<u64>>, K>(IndexList::default(), true, usize::MAX);
}

// @h prop=C05 tier=quick kind=proof inst="Vec<usize>" bounds="3 unconstrained usize pushes" desc="plain vector as index container"
#[cfg_attr(kani, kani::proof, kani::unwind(5))]
pub fn c05_vec_seq3() {
    container_seq::<Vec<usize>, K>(Vec::new(), false, usize::MAX);
}

/// `k` further unconstrained pushes after a concrete prefix that puts `IndexOptimized` into a given mode.
fn indexopt_after_prefix(prefix: &[usize]) {
    let mut c = IndexOptimized::<Vec<u32>, Vec<u64>>::default();
    let mut m = [0usize; 8];
    let mut n = 0;
    for &p in prefix {
        c.push(p);
        m[n] = p;
        n += 1;
    }
    let vals = sym::words::<2>();
    let mut i = 0;
    while i < 2 {
        c.push(vals[i]);
        m[n] = vals[i];
        n += 1;
        assert!(Storage::len(&c) == n, "C05: len differs from the number of pushes");
        let mut j = 0;
        while j < n {
            assert!(c.index(j) == m[j], "C05: index(j) differs from the j-th pushed value");
            j += 1;
        }
        i += 1;
    }
    // iteration agrees with index(j) across the stride / spill boundary
    let mut it = c.iter();
    let mut j = 0;
    while j < n {
        assert!(it.next() == Some(m[j]), "C05: iter yields a different element than index(j)");
        j += 1;
    }
    assert!(it.next().is_none(), "C05: iter yields too many elements");
    drop(it);
    cover!(true, "end reached");
    sym::forget(c);
}

// @h prop=C05 tier=quick kind=proof engine=both inst="IndexOptimized in Striding mode" bounds="prefix 0,3,6 then 2 unconstrained pushes" desc="mode-prefix harness"
#[cfg_attr(kani, kani::proof, kani::unwind(8))]
pub fn c05_indexopt_mode_striding() {
    indexopt_after_prefix(&[0, 3, 6]);
}

// @h prop=C05 tier=quick kind=proof engine=both inst="IndexOptimized in Saturated mode" bounds="prefix 0,3,6,6 then 2 unconstrained pushes" desc="mode-prefix harness"
#[cfg_attr(kani, kani::proof, kani::unwind(8))]
pub fn c05_indexopt_mode_saturated() {
    indexopt_after_prefix(&[0, 3, 6, 6]);
}

// @h prop=C05 tier=quick kind=proof engine=both inst="IndexOptimized spilled to u32" bounds="prefix 0,3,5 then 2 unconstrained pushes" desc="mode-prefix harness"
#[cfg_attr(kani, kani::proof, kani::unwind(8))]
pub fn c05_indexopt_mode_spilled32() {
    indexopt_after_prefix(&[0, 3, 5]);
}

// @h prop=C05 tier=quick kind=proof engine=both inst="IndexOptimized spilled to u64" bounds="prefix 0,3,2^40 then 2 unconstrained pushes" desc="mode-prefix harness"
#[cfg_attr(kani, kani::proof, kani::unwind(8))]
pub fn c05_indexopt_mode_spilled64() {
    indexopt_after_prefix(&[0, 3, 1 << 40]);
}

// @h prop=C05 tier=quick kind=proof engine=both inst="IndexOptimized<Vec<u32>,Vec<u64>>" bounds="3 unconstrained pushes with a clear before the 2nd" desc="clear resets stride state and spill, later pushes faithful"
#[cfg_attr(kani, kani::proof, kani::unwind(5))]
pub fn c05_indexopt_seq3_clear1() {
    container_seq::<IndexOptimized, K>(IndexOptimized::default(), false, 1);
}

// @h prop=C05 tier=quick kind=proof engine=both inst="IndexOptimized<Vec<u32>,Vec<u64>>" bounds="3 unconstrained pushes with a clear before the 3rd" desc="clear resets stride state and spill, later pushes faithful"
#[cfg_attr(kani, kani::proof, kani::unwind(5))]
pub fn c05_indexopt_seq3_clear2() {
    container_seq::<IndexOptimized, K>(IndexOptimized::default(), false, 2);
}

// @h prop=C05 tier=quick kind=proof engine=both inst="IndexList<Vec<u32>,Vec<u64>>" bounds="3 unconstrained pushes with a clear before the 2nd" desc="clear empties both lists, u32 path is available again"
#[cfg_attr(kani, kani::proof, kani::unwind(5))]
pub fn c05_indexlist_seq3_clear1() {
    container_seq::<IndexList<Vec<u32>, Vec<u64>>, K>(IndexList::default(), false, 1);
}

// @h prop=C05 tier=quick kind=proof engine=both inst="IndexList<Vec<u32>,Vec<u64>>" bounds="3 unconstrained pushes with a clear before the 3rd" desc="clear empties both lists, u32 path is available again"
#[cfg_attr(kani, kani::proof, kani::unwind(5))]
pub fn c05_indexlist_seq3_clear2() {
    container_seq::<IndexList<Vec<u32>, Vec<u64>>, K>(IndexList::default(), false, 2);
}

/// A container in the given mode (concrete prefix) is cleared; afterwards it must behave like a fresh one for two
/// unconstrained pushes (nothing of the stride or of the spill survives).
fn indexopt_clear_after_prefix(prefix: &[usize]) {
    let mut c = IndexOptimized::<Vec<u32>, Vec<u64>>::default();
    for &p in prefix {
        c.push(p);
    }
    c.clear();
    assert!(Storage::len(&c) == 0 && Storage::is_empty(&c) && c.iter().next().is_none(), "C05: clear does not empty the container");
    let vals = sym::words::<2>();
    let mut m = [0usize; 2];
    let mut n = 0;
    while n < 2 {
        c.push(vals[n]);
        m[n] = vals[n];
        n += 1;
        assert!(Storage::len(&c) == n, "C05: len after clear differs from the number of pushes");
        let mut j = 0;
        while j < n {
            assert!(c.index(j) == m[j], "C05: index(j) after clear differs from the j-th pushed value");
            j += 1;
        }
    }
    cover!(true, "end reached");
    sym::forget(c);
}

// @h prop=C05 tier=quick kind=proof engine=both inst="IndexOptimized cleared in mode: strided" bounds="prefix 0,3,6 (strided), clear, 2 unconstrained pushes" desc="clear forgets the stride AND the spill whatever mode the container was in; the next values are stored as on a fresh container"
#[cfg_attr(kani, kani::proof, kani::unwind(8))]
pub fn c05_indexopt_clear_strided() {
    indexopt_clear_after_prefix(&[0, 3, 6]);
}

// @h prop=C05 tier=quick kind=proof engine=both inst="IndexOptimized cleared in mode: saturated" bounds="prefix 0,3,6,6 (saturated), clear, 2 unconstrained pushes" desc="clear forgets the stride AND the spill whatever mode the container was in; the next values are stored as on a fresh container"
#[cfg_attr(kani, kani::proof, kani::unwind(8))]
pub fn c05_indexopt_clear_saturated() {
    indexopt_clear_after_prefix(&[0, 3, 6, 6]);
}

// @h prop=C05 tier=quick kind=proof engine=both inst="IndexOptimized cleared in mode: spilled32" bounds="prefix 0,3,5 (stride + u32 spill), clear, 2 unconstrained pushes" desc="clear forgets the stride AND the spill whatever mode the container was in; the next values are stored as on a fresh container"
#[cfg_attr(kani, kani::proof, kani::unwind(8))]
pub fn c05_indexopt_clear_spilled32() {
    indexopt_clear_after_prefix(&[0, 3, 5]);
}

// @h prop=C05 tier=quick kind=proof engine=both inst="IndexOptimized cleared in mode: spilled64" bounds="prefix 0,3,2^40 (stride + u64 spill), clear, 2 unconstrained pushes" desc="clear forgets the stride AND the spill whatever mode the container was in; the next values are stored as on a fresh container"
#[cfg_attr(kani, kani::proof, kani::unwind(8))]
pub fn c05_indexopt_clear_spilled64() {
    indexopt_clear_after_prefix(&[0, 3, 1 << 40]);
}

// @h prop=C05 tier=quick kind=proof inst="IndexOptimized iterator: next() x a, then nth(k), then the rest" bounds="values 0,1,2 (stride) then 7, 3 (spilled; concrete values); a <= 3 steps, k <= 4, both symbolic" desc="jumping with nth (skip / step_by) from inside the strided prefix to the spilled part and beyond: nth(k) is element a+k or None, the remainder follows in order, nothing is replayed"
#[cfg_attr(kani, kani::proof, kani::unwind(8))]
pub fn c05_indexopt_iter_jumps() {
    let mut c = IndexOptimized::<Vec<u32>, Vec<u64>>::default();
    let m = [0usize, 1, 2, 7, 3];
    let mut j = 0;
    while j < 5 {
        c.push(m[j]);
        j += 1;
    }
    let a = sym::usize();
    let k = sym::usize();
    sym::assume(a <= 3 && k <= 4);
    let mut it = c.iter();
    let mut j = 0;
    while j < a {
        assert!(it.next() == Some(m[j]), "C05: iter yields a different element than was pushed");
        j += 1;
    }
    let got = it.nth(k);
    let mut pos = a + k;
    assert!(got == if pos < 5 { Some(m[pos]) } else { None }, "C05: iter.nth(k) is not the element k positions ahead / None");
    pos += 1;
    while pos < 5 {
        assert!(it.next() == Some(m[pos]), "C05: after nth the iterator replays or skips elements");
        pos += 1;
    }
    assert!(it.next().is_none(), "C05: after nth the iterator yields too many elements");
    drop(it);
    cover!(true, "end reached");
    sym::forget(c);
}
