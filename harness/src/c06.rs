//! C06 — Huffman container: the bit-level kernels underneath it (DESIGN.md §3 C06).  `merge_regions`, `push`'s
//! statistics and `create_from` insert into B-trees and cannot be encoded (§1.2); what is decided here is the bit
//! iterator, the table decoder and the encoder/partial-byte append, each as a one-step or short obligation over the
//! real private code reached through the `verif-hooks` feature.
use crate::sym;
use flatcontainer::impls::huffman_container::verif_hooks::{bit_chunk, Code};

// ---------------------------------------------------------------------------------------------------------------
// kernel 1: BitIterator::next, one step from an arbitrary cursor
// ---------------------------------------------------------------------------------------------------------------
// @h prop=C06 tier=quick kind=proof inst="BitIterator::next (via hook bit_chunk)" bounds="3 symbolic bytes, any cursor 0 <= lo, hi <= 24 (every start/end alignment, chunks of 1..8 bits, items spanning 0,1,2 whole bytes); induction on the step covers longer items" desc="chunk has min(hi-lo, 8-lo%8) bits, equals those bits of the input, cursor advances by exactly that; None iff the range is exhausted; no overflow or out-of-bounds"
#[cfg_attr(kani, kani::proof, kani::unwind(2))]
pub fn c06_bit_iterator_step() {
    let bytes = sym::bytes::<3>();
    let lo = sym::upto(24);
    let hi = sym::upto(24);
    let got = bit_chunk(&bytes, (lo, hi));
    if lo >= hi {
        assert!(got.is_none(), "C06: bit iterator yields a chunk from an exhausted range");
    } else {
        let rem = hi - lo;
        let room = 8 - lo % 8;
        let n = if rem < room { rem } else { room };
        let word: u32 = ((bytes[0] as u32) << 16) | ((bytes[1] as u32) << 8) | (bytes[2] as u32);
        let expect = ((word >> (24 - lo - n)) & ((1u32 << n) - 1)) as u8;
        match got {
            None => assert!(false, "C06: bit iterator stops although bits remain"),
            Some(((chunk, count), (nlo, nhi))) => {
                assert!(count == n, "C06: bit iterator chunk has the wrong number of bits");
                assert!(chunk == expect, "C06: bit iterator chunk differs from the input bits");
                assert!(nlo == lo + n && nhi == hi, "C06: bit iterator cursor not advanced by the chunk size");
            }
        }
    }
    cover!(lo < hi && lo % 8 == 0 && hi - lo >= 8, "a whole aligned byte is delivered");
}

// ---------------------------------------------------------------------------------------------------------------
// kernel 3: decoder at the end of an item (no pending bits, no more input)
// ---------------------------------------------------------------------------------------------------------------
// @h prop=C06 tier=quick kind=proof unwindset="from_fn|drop_glue|drop_in_place:258" inst="Decoder::next on the empty code (all-Void table: what merge_regions over no statistics builds)" bounds="state: no pending bits, no further chunk" desc="an empty item decodes to nothing: next() is None and does not panic"
#[cfg_attr(kani, kani::proof, kani::unwind(3))]
pub fn c06_decoder_end_empty_code() {
    let code = Code::<u8>::empty();
    let (sym_, st) = code.decode_step(0, 0, None);
    assert!(sym_.is_none(), "C06: decoder yields a symbol from an empty item");
    assert!(st.1 == 0, "C06: decoder invents pending bits");
    cover!(true, "end reached");
    sym::forget(code);
}

// @h prop=C06 tier=quick kind=proof unwindset="from_fn|drop_glue|drop_in_place:258" inst="Decoder::next on a two-symbol code (1-bit codes; root entry 0 is Symbol; table state written down directly)" bounds="state: no pending bits, no further chunk; symbols symbolic" desc="end of item: next() is None"
#[cfg_attr(kani, kani::proof, kani::unwind(3))]
pub fn c06_decoder_end_symbol_root() {
    let a = sym::u8();
    let b = sym::u8();
    let code = Code::<u8>::uniform_table(1, &[a, b]);
    let (sym_, st) = code.decode_step(0, 0, None);
    assert!(sym_.is_none(), "C06: decoder yields a symbol from an empty item");
    assert!(st.1 == 0, "C06: decoder invents pending bits");
    cover!(true, "end reached");
    sym::forget(code);
}

// ---------------------------------------------------------------------------------------------------------------
// table construction: one real insert_decode into a void table
// ---------------------------------------------------------------------------------------------------------------
/// One real `insert_decode` of a `w`-bit code word (any value) for a symbolic symbol into an all-Void table, read back
/// at one symbolic slot.  The drop glue of the overwritten slots is bounded at 1 iteration: the unwinding assertion
/// thereby *checks* that no nested (`Further`) table is ever overwritten (an unbounded drop-glue recursion over
/// `Box<[Decode; 256]>` is what made earlier formulations run out of memory).
fn insert_decode_one(w: usize, concrete: Option<u64>) {
    let s = sym::u8();
    // a symbolic code word means 2^(8-w) writes at symbolic slots: affordable for 8- and 7-bit codes only
    let cw = match concrete {
        Some(c) => c,
        None => sym::u64(),
    };
    sym::assume(cw < (1u64 << w));
    let code = Code::<u8>::decode_only(&[(s, w, cw)]);
    let i = sym::upto(255);
    let in_range = (i >> (8 - w)) as u64 == cw;
    match code.table_entry(i) {
        Some((x, bits)) => assert!(in_range && *x == s && bits == w, "C06: insert_decode wrote a wrong or misplaced entry"),
        None => assert!(!in_range, "C06: insert_decode left a slot of the code word void"),
    }
    cover!(in_range, "a slot of the code word");
    cover!(!in_range, "a slot outside the code word");
    sym::forget(code);
}

// @h prop=C06 tier=quick kind=proof timeout=900 unwindset="drop_glue|drop_in_place:1;from_fn:258;insert_decode:258" inst="Huffman::insert_decode, one insertion into an all-Void table" bounds="symbolic symbol; code length 8 with ANY code word (one slot); the table is read at one symbolic slot" desc="exactly the 2^(8-bits) slots whose top bits are the code word become Symbol(sym, bits), all others stay Void (this is what makes the directly written tables of the decoder kernels the states real insertions produce)"
#[cfg_attr(kani, kani::proof, kani::unwind(3))]
pub fn c06_insert_decode_8bit() {
    insert_decode_one(8, None);
}

// @h memw=5 prop=C06 tier=quick kind=proof timeout=900 unwindset="drop_glue|drop_in_place:1;from_fn:258;insert_decode:258" inst="Huffman::insert_decode, one insertion into an all-Void table" bounds="symbolic symbol; 6-bit code word 0x2A (4 slots) and 3-bit code word 5 (32 slots)" desc="as c06_insert_decode_8bit, concrete code words"
#[cfg_attr(kani, kani::proof, kani::unwind(3))]
pub fn c06_insert_decode_6_and_3bit() {
    insert_decode_one(6, Some(0x2A));
    insert_decode_one(3, Some(5));
}

// @h prop=C06 tier=thorough kind=proof timeout=3000 mem=20 unwindset="drop_glue|drop_in_place:1;from_fn:258;insert_decode:258" inst="Huffman::insert_decode, one insertion into an all-Void table" bounds="code length 7 with any code word (2 slots); 1-bit code word 1 (128 slots)" desc="as c06_insert_decode_8bit"
#[cfg(feature = "thorough")]
#[cfg_attr(kani, kani::proof, kani::unwind(3))]
pub fn c06_insert_decode_7_and_1bit() {
    insert_decode_one(7, None);
    insert_decode_one(1, Some(1));
}

// @h prop=C06 tier=quick kind=proof timeout=900 memw=4 unwindset="drop_glue|drop_in_place:1;from_fn|Decode.*map:258;insert_decode:258" inst="Decoder::next on a code with a 9-bit symbol (root entry 0 is Further: what >= 512 equiprobable symbols produce)" bounds="state: no pending bits, no further chunk" desc="end of item: next() is None and does not panic"
#[cfg_attr(kani, kani::proof, kani::unwind(3))]
pub fn c06_decoder_end_further_root() {
    let code = Code::<u16>::decode_only(&[(7u16, 9, 0)]);
    let (sym_, st) = code.decode_step(0, 0, None);
    assert!(sym_.is_none(), "C06: decoder yields a symbol from an empty item");
    assert!(st.1 == 0, "C06: decoder invents pending bits");
    cover!(true, "end reached");
    sym::forget(code);
}

// ---------------------------------------------------------------------------------------------------------------
// kernel 2: Decoder::next, one step from an arbitrary mid-stream state
// ---------------------------------------------------------------------------------------------------------------
/// Model of one decoding step for a code in which every symbol has `w` bits and symbol `k` has code `k`.
fn decoder_step_uniform(code: &Code<u8>, w: usize, syms: &[u8]) {
    let pending_bits = sym::upto(15);
    let pending_byte = sym::u16();
    sym::assume((pending_byte as u32) < (1u32 << pending_bits));
    // at most one further chunk, shaped as kernel 1 proves the bit iterator delivers it: 1..=8 bits, value < 2^n
    let has_next = sym::bool();
    let n = sym::upto(8);
    let c = sym::u8();
    sym::assume(n >= 1 && (c as u32) < (1u32 << n));
    // the decoder only pulls a chunk when fewer than 8 bits are pending; keep the state within its 16-bit register
    let pulled = has_next && pending_bits < 8;
    let avail = if pulled { pending_bits + n } else { pending_bits };
    let bits: u32 = if pulled { ((pending_byte as u32) << n) | c as u32 } else { pending_byte as u32 };
    // well-formed item: a whole number of code words remains
    sym::assume(avail % w == 0);
    let next = if has_next { Some((c, n)) } else { None };
    let (got, st) = code.decode_step(pending_byte, pending_bits, next);
    if avail == 0 {
        assert!(got.is_none(), "C06: decoder yields a symbol although no bits remain");
    } else {
        let k = ((bits >> (avail - w)) & ((1u32 << w) - 1)) as usize;
        match got {
            None => assert!(false, "C06: decoder stops although a whole code word remains"),
            Some(s) => assert!(*s == syms[k], "C06: decoder yields the wrong symbol"),
        }
        assert!(st.1 == avail - w, "C06: decoder consumed a wrong number of bits");
        assert!(st.0 as u32 == bits & ((1u32 << (avail - w)) - 1), "C06: decoder corrupted the remaining bits");
    }
    cover!(avail >= 8 && pulled, "a chunk was pulled and a symbol decoded from a full byte");
    cover!(avail > 0 && avail < 8, "a symbol decoded from a final partial byte");
}

// @h memw=6 prop=C06 tier=quick kind=proof timeout=900 unwindset="from_fn|drop_glue|drop_in_place:258" inst="Decoder::next, two 1-bit codes (table written down directly), arbitrary mid-stream state" bounds="pending_bits <= 15, pending_byte < 2^pending_bits, at most one further chunk of 1..8 bits; symbols symbolic" desc="one step: the symbol whose code prefixes the remaining bit string, None iff no bits remain, remaining bits preserved; induction on the step covers items of any length"
#[cfg_attr(kani, kani::proof, kani::unwind(3))]
pub fn c06_decoder_step_1bit() {
    let a = sym::u8();
    let b = sym::u8();
    let code = Code::<u8>::uniform_table(1, &[a, b]);
    decoder_step_uniform(&code, 1, &[a, b]);
    sym::forget(code);
}

// @h memw=5 prop=C06 tier=quick kind=proof timeout=900 unwindset="from_fn|drop_glue|drop_in_place:258" inst="Decoder::next, four 2-bit codes (table written down directly), arbitrary mid-stream state" bounds="pending_bits <= 15, at most one further chunk of 1..8 bits" desc="as c06_decoder_step_1bit"
#[cfg_attr(kani, kani::proof, kani::unwind(3))]
pub fn c06_decoder_step_2bit() {
    let syms = sym::bytes::<4>();
    let code = Code::<u8>::uniform_table(2, &syms);
    decoder_step_uniform(&code, 2, &syms);
    sym::forget(code);
}

// ---------------------------------------------------------------------------------------------------------------
// kernel 4: encoder + push_symbols (append into a shared partial byte) with a one-entry code
// ---------------------------------------------------------------------------------------------------------------
fn bit_at(bytes: &[u8], i: usize) -> bool {
    (bytes[i / 8] >> (7 - i % 8)) & 1 == 1
}

/// `n` copies of the only symbol are appended to an arbitrary pre-state `(bytes, bits)`.
fn push_one_entry(max_bits: usize, n: usize) {
    push_one_entry_widths(1, max_bits, n)
}

/// As `push_one_entry` with the code length in `min_bits..=max_bits` (concrete when both are equal: code words wider
/// than a byte span three bytes of the pending-bits register when they start late in a shared byte).
fn push_one_entry_widths(min_bits: usize, max_bits: usize, n: usize) {
    let s = sym::u8();
    let w = if min_bits == max_bits { max_bits } else { sym::upto(max_bits) };
    sym::assume(w >= min_bits);
    let cw = sym::u64();
    sym::assume(cw < (1u64 << w));
    let code = Code::<u8>::encode_only(&[(s, w, cw)]);
    // pre-state: `bits` bits already stored in ceil(bits/8) bytes, unused low bits of the last byte are zero
    let pre = sym::bytes::<2>();
    let bits0 = sym::upto(16);
    let nbytes = (bits0 + 7) / 8;
    let mut bytes: Vec<u8> = Vec::with_capacity(8);
    let mut i = 0;
    while i < nbytes {
        bytes.push(pre[i]);
        i += 1;
    }
    if bits0 % 8 != 0 {
        sym::assume(pre[nbytes - 1] & (0xffu8 >> (bits0 % 8)) == 0);
    }
    let mut bits = bits0;
    let symbols = [s; 3];
    let (lo, hi) = code.push(&mut bytes, &mut bits, &symbols[..n]);
    assert!(lo == bits0, "C06: pushed item does not start at the previous end");
    assert!(hi == bits0 + n * w && bits == hi, "C06: item does not occupy the sum of its code lengths");
    assert!(bytes.len() == (hi + 7) / 8, "C06: byte length is not ceil(bits / 8)");
    // append-only: every earlier bit is unchanged
    if bits0 > 0 {
        let q = sym::usize();
        sym::assume(q < bits0);
        assert!(bit_at(&bytes, q) == bit_at(&pre, q), "C06: an earlier item's bit was altered by the append");
    }
    // the new bits are the code word, repeated
    if n > 0 {
        let q = sym::usize();
        sym::assume(q < n * w);
        let expect = (cw >> (w - 1 - q % w)) & 1 == 1;
        assert!(bit_at(&bytes, bits0 + q) == expect, "C06: stored bit differs from the code word");
    }
    cover!(bits0 % 8 != 0 && n > 0, "append into a shared partial byte");
    sym::forget(code);
    sym::forget(bytes);
}

// @h memw=7 prop=C06 tier=quick kind=proof timeout=900 unwindset="from_fn|drop_glue|drop_in_place:258" inst="push_symbols + Encoder, one-entry code" bounds="code length 1..4 bits, any code word, pre-state of <= 16 bits at any alignment, 2 symbols" desc="range = (old end, old end + sum of code lengths), byte length = ceil(bits/8), earlier bits unchanged, new bits are the code words"
#[cfg_attr(kani, kani::proof, kani::unwind(5))]
pub fn c06_push_one_entry_small() {
    push_one_entry(4, 2);
}

// @h memw=7 prop=C06 tier=quick kind=proof timeout=900 unwindset="from_fn|drop_glue|drop_in_place:258" inst="push_symbols + Encoder, one-entry code WIDER than a byte" bounds="code length 10 bits, any code word, pre-state of 0..16 bits (every bit offset of the shared byte), 2 symbols" desc="as c06_push_one_entry_small for a code word that, started late in a shared byte, makes pending + code bits exceed 16"
#[cfg_attr(kani, kani::proof, kani::unwind(6))]
pub fn c06_push_one_entry_wide10() {
    push_one_entry_widths(10, 10, 2);
}

// @h prop=C06 tier=thorough kind=proof timeout=3000 unwindset="from_fn|drop_glue|drop_in_place:258" inst="push_symbols + Encoder, one-entry code" bounds="code length 1..8 bits, any code word, pre-state of <= 16 bits at any alignment, 3 symbols" desc="as c06_push_one_entry_small"
#[cfg(feature = "thorough")]
#[cfg_attr(kani, kani::proof, kani::unwind(6))]
pub fn c06_push_one_entry() {
    push_one_entry(8, 3);
}

// @h prop=C06 tier=quick kind=must_panic timeout=900 unwindset="from_fn|drop_glue|drop_in_place:258" inst="push_symbols, one-entry code" bounds="one symbol in the code (1 bit), a different symbol pushed" desc="a symbol outside the statistics is refused by panicking at push"
#[cfg_attr(kani, kani::proof, kani::unwind(5))]
pub fn c06_push_unknown_symbol() {
    let s = sym::u8();
    let t = sym::u8();
    sym::assume(s != t);
    let code = Code::<u8>::encode_only(&[(s, 1, 0)]);
    let mut bytes: Vec<u8> = Vec::new();
    let mut bits = 0usize;
    let _ = code.push(&mut bytes, &mut bits, &[t]);
    assert!(false, "MUST-PANIC: a symbol outside the code was accepted by push");
}

// @h prop=C06 tier=thorough kind=proof timeout=3000 unwindset="from_fn|drop_glue|drop_in_place:258" inst="Decoder::next, eight 3-bit codes (table written down directly), arbitrary mid-stream state" bounds="pending_bits <= 15, at most one further chunk of 1..8 bits; symbols symbolic" desc="as c06_decoder_step_1bit (code words that straddle the byte boundary of the pending register)"
#[cfg(feature = "thorough")]
#[cfg_attr(kani, kani::proof, kani::unwind(3))]
pub fn c06_decoder_step_3bit() {
    let syms = sym::bytes::<8>();
    let code = Code::<u8>::uniform_table(3, &syms);
    decoder_step_uniform(&code, 3, &syms);
    sym::forget(code);
}

// @h prop=C06 tier=thorough kind=proof timeout=3000 memw=12 unwindset="drop_glue|drop_in_place:1;from_fn|Decode.*map:258;insert_decode:258" inst="Decoder::next through a NESTED table: code {A: nine 0-bits (9-bit code, second-level table), B: one 1-bit}, tables built by the real insert_decode" bounds="arbitrary mid-stream state (pending_bits <= 15, at most one further chunk) whose remaining bit string starts with a whole code word (1, or nine 0s)" desc="one step: B for a leading 1, A for nine leading 0s (the decoder descends into the second-level table), remaining bits preserved; codes deeper than one byte"
#[cfg(feature = "thorough")]
#[cfg_attr(kani, kani::proof, kani::unwind(3))]
pub fn c06_decoder_step_nested() {
    let a = sym::u8();
    let b = sym::u8();
    let code = Code::<u8>::decode_only(&[(a, 9, 0), (b, 1, 1)]);
    let pending_bits = sym::upto(15);
    let pending_byte = sym::u16();
    sym::assume((pending_byte as u32) < (1u32 << pending_bits));
    let has_next = sym::bool();
    let n = sym::upto(8);
    let c = sym::u8();
    sym::assume(n >= 1 && (c as u32) < (1u32 << n));
    // model of the bit string the decoder sees: the pending bits, followed by the chunk if it is pulled - either at
    // once (fewer than 8 bits pending) or after descending into the second-level table (8 zero bits consumed, fewer
    // than 8 left)
    let pulled_first = has_next && pending_bits < 8;
    let avail1 = if pulled_first { pending_bits + n } else { pending_bits };
    let bits1: u32 = if pulled_first { ((pending_byte as u32) << n) | c as u32 } else { pending_byte as u32 };
    sym::assume(avail1 >= 1);
    let first_is_one = (bits1 >> (avail1 - 1)) & 1 == 1;
    let descends = !first_is_one && avail1 >= 8 && (bits1 >> (avail1 - 8)) == 0;
    let pulled_late = descends && has_next && !pulled_first && avail1 - 8 < 8;
    let avail = if pulled_late { avail1 + n } else { avail1 };
    let bits: u32 = if pulled_late { (bits1 << n) | c as u32 } else { bits1 };
    // well-formed data: a leading 1 (symbol B), or nine leading 0s (symbol A)
    let nine_zeros = descends && avail >= 9 && (bits >> (avail - 9)) == 0;
    sym::assume(first_is_one || nine_zeros);
    let next = if has_next { Some((c, n)) } else { None };
    let (got, st) = code.decode_step(pending_byte, pending_bits, next);
    let used = if first_is_one { 1 } else { 9 };
    match got {
        None => assert!(false, "C06: decoder stops although a whole code word remains"),
        Some(s) => assert!(*s == if first_is_one { b } else { a }, "C06: decoder yields the wrong symbol through the nested table"),
    }
    assert!(st.1 == avail - used, "C06: decoder consumed a wrong number of bits (nested table)");
    assert!(st.0 as u32 == bits & ((1u32 << (avail - used)) - 1), "C06: decoder corrupted the remaining bits (nested table)");
    cover!(nine_zeros && pulled_late, "descended into the second-level table, then pulled the chunk");
    cover!(nine_zeros && !pulled_late, "descended into the second-level table");
    cover!(first_is_one && pulled_first, "one-bit symbol after pulling a chunk");
    sym::forget(code);
}

// @h prop=C06 tier=quick kind=proof timeout=900 memw=6 unwindset="drop_glue|drop_in_place:1;from_fn|Decode.*map:258;insert_decode:258" inst="Decoder::next through a NESTED table, symbol starting on a byte boundary: code {A: nine 0-bits, B: one 1-bit}" bounds="state: exactly 8 zero bits pending (a whole aligned byte), one further chunk of 1..8 symbolic bits whose first bit is 0" desc="a code deeper than one byte that starts exactly on a byte boundary decodes (descend into the second-level table, pull the next chunk): symbol A, remaining bits preserved"
#[cfg_attr(kani, kani::proof, kani::unwind(3))]
pub fn c06_decoder_step_nested_aligned() {
    let a = sym::u8();
    let b = sym::u8();
    let code = Code::<u8>::decode_only(&[(a, 9, 0), (b, 1, 1)]);
    let n = sym::upto(8);
    let c = sym::u8();
    sym::assume(n >= 1 && (c as u32) < (1u32 << n));
    sym::assume((c >> (n - 1)) & 1 == 0);
    let (got, st) = code.decode_step(0, 8, Some((c, n)));
    match got {
        None => assert!(false, "C06: decoder stops although a whole code word remains"),
        Some(s) => assert!(*s == a, "C06: decoder yields the wrong symbol for a 9-bit code starting on a byte boundary"),
    }
    assert!(st.1 == n - 1 && st.0 as u32 == (c as u32) & ((1u32 << (n - 1)) - 1), "C06: decoder corrupted the remaining bits (aligned nested code)");
    cover!(n == 8, "a full further byte");
    sym::forget(code);
}
