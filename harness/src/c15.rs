//! C15 — equality and ordering of read items match those of the owned values.
use crate::gen::Bytes;
use crate::sym;
use core::cmp::Ordering;
use flatcontainer::impls::huffman_container::HuffmanContainer;
use flatcontainer::{IntoOwned, MirrorRegion, Push, Region, SliceRegion, StringRegion};

type SR = SliceRegion<MirrorRegion<u8>>;

/// Lexicographic comparison of two bounded byte strings, written out (the oracle; no memcmp).
fn model_cmp(a: &Bytes<3>, b: &Bytes<3>) -> Ordering {
    let mut i = 0;
    while i < 3 {
        if i >= a.len || i >= b.len {
            break;
        }
        if a.buf[i] < b.buf[i] {
            return Ordering::Less;
        }
        if a.buf[i] > b.buf[i] {
            return Ordering::Greater;
        }
        i += 1;
    }
    a.len.cmp(&b.len)
}

fn assert_agrees<T: Ord>(x: &T, y: &T, m: Ordering) {
    assert!((x == y) == (m == Ordering::Equal), "C15: == disagrees with equality of the owned values");
    assert!(x.partial_cmp(y) == Some(m), "C15: partial_cmp disagrees with the order of the owned values");
    assert!(x.cmp(y) == m, "C15: cmp disagrees with the order of the owned values");
    assert!(y.cmp(x) == m.reverse(), "C15: cmp is not antisymmetric");
    assert!(x.cmp(x) == Ordering::Equal && x == x, "C15: cmp/eq not reflexive");
}

// @h memw=10 prop=C15 tier=quick kind=proof inst="ReadSlice<MirrorRegion<u8>>, both region-backed, same region" bounds="two adjacent items: <=3 symbolic bytes with symbolic length vs 2 symbolic bytes (shorter, equal-length and longer first item; prefixes and equal contents all in the query)" desc="==, partial_cmp, cmp coincide with lexicographic order of the owned vectors; reflexive; antisymmetric"
#[cfg_attr(kani, kani::proof, kani::unwind(6))]
pub fn c15_slice_region_region() {
    let a = Bytes::<3>::any_symlen();
    let b = Bytes::<3>::any_len(2);
    let mut r = SR::default();
    let ia = r.push(a.as_slice());
    let ib = r.push(b.as_slice());
    assert_agrees(&r.index(ia), &r.index(ib), model_cmp(&a, &b));
    cover!(a.len < b.len && model_cmp(&a, &b) == Ordering::Less, "proper prefix or smaller");
    sym::forget(r);
}

// @h memw=5 prop=C15 tier=quick kind=proof inst="ReadSlice<MirrorRegion<u8>>, region-backed in two different regions" bounds="two items of <=3 symbolic bytes in different regions (different offsets)" desc="comparison is by content, not by region or offset"
#[cfg_attr(kani, kani::proof, kani::unwind(6))]
pub fn c15_slice_two_regions() {
    let a = Bytes::<3>::any_symlen();
    let b = Bytes::<3>::any_symlen();
    let pad = Bytes::<3>::any_len(2);
    let mut r1 = SR::default();
    let mut r2 = SR::default();
    let _ = r1.push(pad.as_slice());
    let ia = r1.push(a.as_slice());
    let ib = r2.push(b.as_slice());
    assert_agrees(&r1.index(ia), &r2.index(ib), model_cmp(&a, &b));
    cover!(model_cmp(&a, &b) == Ordering::Equal && a.len == 2, "equal content in different regions");
    sym::forget(r1);
    sym::forget(r2);
}

// @h prop=C15 tier=quick kind=proof inst="ReadSlice<MirrorRegion<u8>>, region-backed vs owned-borrowed" bounds="two items of <=3 symbolic bytes" desc="representation independence: region-backed item vs borrow_as(&Vec) compare like the owned values"
#[cfg_attr(kani, kani::proof, kani::unwind(6))]
pub fn c15_slice_region_borrowed() {
    let a = Bytes::<3>::any_symlen();
    let b = Bytes::<3>::any_symlen();
    let mut r = SR::default();
    let ia = r.push(a.as_slice());
    let vb: Vec<u8> = b.to_vec();
    let yb = <SR as Region>::ReadItem::borrow_as(&vb);
    assert_agrees(&r.index(ia), &yb, model_cmp(&a, &b));
    cover!(model_cmp(&a, &b) == Ordering::Greater, "greater");
    sym::forget(r);
}

// @h prop=C15 tier=quick kind=proof inst="ReadSlice<MirrorRegion<u8>>, both owned-borrowed" bounds="two vectors of <=3 symbolic bytes" desc="borrowed/borrowed comparison equals that of the owned vectors"
#[cfg_attr(kani, kani::proof, kani::unwind(6))]
pub fn c15_slice_borrowed_borrowed() {
    let a = Bytes::<3>::any_symlen();
    let b = Bytes::<3>::any_symlen();
    let va: Vec<u8> = a.to_vec();
    let vb: Vec<u8> = b.to_vec();
    let xa = <SR as Region>::ReadItem::borrow_as(&va);
    let yb = <SR as Region>::ReadItem::borrow_as(&vb);
    assert_agrees(&xa, &yb, model_cmp(&a, &b));
    cover!(model_cmp(&a, &b) == Ordering::Equal && a.len == 3, "equal");
}

// @h prop=C15 tier=quick kind=proof inst="ReadSlice<StringRegion>, region-backed vs owned-borrowed" bounds="row [s1,s2] region-backed vs row [t1] borrowed, 1-byte strings with symbolic contents" desc="rows of strings compare like Vec<String>"
#[cfg_attr(kani, kani::proof, kani::unwind(6))]
pub fn c15_slice_str() {
    let s = [crate::gen::string_shaped(&[1]), crate::gen::string_shaped(&[1])];
    let t = [crate::gen::string_shaped(&[1]), crate::gen::string_shaped(&[1])];
    let tl = 1;
    let mut r = SliceRegion::<StringRegion>::default();
    let is = r.push(s.as_slice());
    let tv: Vec<String> = t[..tl].to_vec();
    let y = <SliceRegion<StringRegion> as Region>::ReadItem::borrow_as(&tv);
    let x = r.index(is);
    let m = s.as_slice().cmp(&t[..tl]);
    assert_agrees(&x, &y, m);
    cover!(m == Ordering::Greater, "longer row with equal prefix is greater");
    sym::forget(r);
}

// @h prop=C15 tier=thorough kind=proof mem=24 memw=14 timeout=2400 inst="ReadSlice<SliceRegion<MirrorRegion<u8>>> (nested)" bounds="[[x,y],[z]] region-backed vs [[u,v]] borrowed" desc="nested slices compare like Vec<Vec<u8>>"
#[cfg(feature = "thorough")]
#[cfg_attr(kani, kani::proof, kani::unwind(6))]
pub fn c15_nested() {
    type NR = SliceRegion<SliceRegion<MirrorRegion<u8>>>;
    let a = vec![Bytes::<3>::any_len(2).to_vec(), Bytes::<3>::any_len(1).to_vec()];
    let b = vec![Bytes::<3>::any_len(2).to_vec()];
    let mut r = NR::default();
    let ia = r.push(&a);
    let y = <NR as Region>::ReadItem::borrow_as(&b);
    let m = a.cmp(&b);
    assert_agrees(&r.index(ia), &y, m);
    cover!(m == Ordering::Greater, "longer outer slice with equal first row is greater");
    sym::forget(r);
}

// @h memw=5 prop=C15 tier=quick kind=proof inst="three ReadSlice<MirrorRegion<u8>> items (transitivity cross-check)" bounds="three adjacent items of 2 symbolic bytes each" desc="a<=b and b<=c imply a<=c; eq agrees with cmp == Equal"
#[cfg_attr(kani, kani::proof, kani::unwind(6))]
pub fn c15_triple() {
    let a = Bytes::<3>::any_len(2);
    let b = Bytes::<3>::any_len(2);
    let c = Bytes::<3>::any_len(2);
    let mut r = SR::default();
    let ia = r.push(a.as_slice());
    let ib = r.push(b.as_slice());
    let ic = r.push(c.as_slice());
    let (x, y, z) = (r.index(ia), r.index(ib), r.index(ic));
    if x <= y && y <= z {
        assert!(x <= z, "C15: ordering is not transitive");
    }
    if x == y && y == z {
        assert!(x == z, "C15: equality is not transitive");
    }
    assert!((x == y) == (x.cmp(&y) == Ordering::Equal), "C15: eq disagrees with cmp == Equal");
    cover!(x < y && y < z, "strict chain");
    sym::forget(r);
}

// @h prop=C15 tier=quick kind=proof inst="Wrapped<u8> raw vs raw (borrow_as of owned vectors; no container, no B-tree)" bounds="two symbol vectors of <=3 symbolic bytes" desc="raw Huffman items compare like their owned vectors"
#[cfg_attr(kani, kani::proof, kani::unwind(6))]
pub fn c15_wrapped_raw_raw() {
    let a = Bytes::<3>::any_symlen();
    let b = Bytes::<3>::any_symlen();
    let va: Vec<u8> = a.to_vec();
    let vb: Vec<u8> = b.to_vec();
    let x = <HuffmanContainer<u8> as Region>::ReadItem::borrow_as(&va);
    let y = <HuffmanContainer<u8> as Region>::ReadItem::borrow_as(&vb);
    assert_agrees(&x, &y, model_cmp(&a, &b));
    cover!(model_cmp(&a, &b) == Ordering::Less, "less");
}

/// Encoded item (2 code words of the uniform 2-bit code over the symbols 0..3) against a raw item of `blen` symbols; one
/// comparison per harness (each comparison decodes the item anew).
fn enc_raw(op: u8, blen: usize) {
    use flatcontainer::impls::huffman_container::verif_hooks::Code;
    let code = Code::<u8>::uniform_table(2, &[0, 1, 2, 3]);
    let bytes = sym::bytes::<1>();
    let x = code.read(&bytes, (0, 4));
    let a = Bytes::<3> { buf: [(bytes[0] >> 6) & 3, (bytes[0] >> 4) & 3, 0], len: 2 };
    let b = Bytes::<3>::any_len(blen);
    sym::assume(b.buf[0] <= 3 && b.buf[1] <= 3 && b.buf[2] <= 3);
    let vb: Vec<u8> = b.to_vec();
    let y = <HuffmanContainer<u8> as Region>::ReadItem::borrow_as(&vb);
    let m = model_cmp(&a, &b);
    match op {
        0 => assert!((x == y) == (m == Ordering::Equal), "C15: encoded == raw disagrees with the owned values"),
        1 => assert!(x.partial_cmp(&y) == Some(m), "C15: encoded vs raw partial_cmp disagrees with the owned values"),
        _ => assert!(y.partial_cmp(&x) == Some(m.reverse()), "C15: raw vs encoded partial_cmp disagrees with the owned values"),
    }
    cover!(m == Ordering::Equal || blen != 2, "opt: equal across representations");
    cover!(true, "end reached");
    sym::forget(code);
}

// @h memw=4 prop=C15 tier=quick kind=proof timeout=900 unwindset="from_fn|drop_glue|drop_in_place:258" inst="Wrapped<u8>: Huffman-ENCODED item vs raw item (uniform 2-bit code over the symbols 0..3, table via hook; no B-tree)" bounds="encoded item = 2 code words (4 bits of a symbolic byte); raw item = 2 symbolic symbols in 0..3" desc="== across representations coincides with equality of the decoded symbol vectors"
#[cfg_attr(kani, kani::proof, kani::unwind(8))]
pub fn c15_wrapped_encoded_raw_eq() {
    enc_raw(0, 2);
}

// @h memw=5 prop=C15 tier=quick kind=proof timeout=900 unwindset="from_fn|drop_glue|drop_in_place:258" inst="Wrapped<u8>: Huffman-ENCODED item vs raw item" bounds="encoded item = 2 code words; raw item = 3 symbolic symbols (the encoded item may be a proper prefix)" desc="partial_cmp across representations coincides with the lexicographic order of the decoded symbol vectors"
#[cfg_attr(kani, kani::proof, kani::unwind(8))]
pub fn c15_wrapped_encoded_raw_cmp() {
    enc_raw(1, 3);
}

// @h prop=C15 tier=thorough kind=proof timeout=1800 unwindset="from_fn|drop_glue|drop_in_place:258" inst="Wrapped<u8>: raw item vs Huffman-ENCODED item" bounds="raw item = 1 symbol resp. 2 symbols; encoded item = 2 code words" desc="the reverse direction and a shorter raw item"
#[cfg(feature = "thorough")]
#[cfg_attr(kani, kani::proof, kani::unwind(8))]
pub fn c15_wrapped_raw_encoded_cmp() {
    enc_raw(2, 1);
    enc_raw(2, 2);
}

// @h prop=C15 tier=quick kind=proof inst="ReadSlice<MirrorRegion<u8>>, region-backed in two different regions at the SAME offsets" bounds="two regions, one item each at offsets (0, 2), symbolic contents" desc="comparison is by content: items of different regions that happen to occupy the same index range are equal only if their contents are"
#[cfg_attr(kani, kani::proof, kani::unwind(6))]
pub fn c15_slice_two_regions_same_offsets() {
    let a = Bytes::<3>::any_len(2);
    let b = Bytes::<3>::any_len(2);
    let mut r1 = SR::default();
    let mut r2 = SR::default();
    let ia = r1.push(a.as_slice());
    let ib = r2.push(b.as_slice());
    assert!(ia == ib, "C15: harness expects identical index ranges");
    assert_agrees(&r1.index(ia), &r2.index(ib), model_cmp(&a, &b));
    cover!(model_cmp(&a, &b) != Ordering::Equal, "different contents at the same offsets");
    sym::forget(r1);
    sym::forget(r2);
}
