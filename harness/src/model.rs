//! Reference models (oracles) written on plain arrays.

/// The documented acceptance rule of `Stride`: a sequence is representable iff it is
/// `0, s, 2s, …, (c-1)·s` (products taken in ℕ — an overflowing product is "no such element") followed by zero or
/// more repetitions of its last strided element.
pub fn stride_representable(w: &[usize]) -> bool {
    let n = w.len();
    if n == 0 {
        return true;
    }
    if w[0] != 0 {
        return false;
    }
    if n <= 2 {
        return true;
    }
    let s = w[1];
    // longest strided prefix
    let mut c = 2;
    while c < n {
        match s.checked_mul(c) {
            Some(p) if p == w[c] => c += 1,
            _ => break,
        }
    }
    // the rest must repeat w[c-1]
    let last = w[c - 1];
    let mut i = c;
    while i < n {
        if w[i] != last {
            return false;
        }
        i += 1;
    }
    true
}

/// Documented heap cost in bytes of an `IndexOptimized<Vec<u32>, Vec<u64>>` holding `w`: the longest representable
/// prefix is free, then 4 bytes per entry while values fit in u32 and 8 bytes per entry from the first larger on.
pub fn index_optimized_cost(w: &[usize]) -> usize {
    let n = w.len();
    let mut p = 0;
    while p < n && stride_representable(&w[..p + 1]) {
        p += 1;
    }
    let mut cost = 0;
    let mut big = false;
    let mut i = p;
    while i < n {
        if w[i] > u32::MAX as usize {
            big = true;
        }
        cost += if big { 8 } else { 4 };
        i += 1;
    }
    cost
}
