// Scans src/cNN.rs for `// @h` metadata lines followed by `pub fn NAME()` and writes a name -> fn table for the
// native replay binary (only for the property modules enabled by cargo features).
use std::{env, fs, path::Path};

fn main() {
    println!("cargo:rerun-if-changed=src");
    let out = env::var("OUT_DIR").unwrap();
    let mut table = String::from("pub static HARNESSES: &[(&str, fn())] = &[\n");
    let mut entries: Vec<_> = fs::read_dir("src").unwrap().filter_map(|e| e.ok()).collect();
    entries.sort_by_key(|e| e.file_name());
    for e in entries {
        let fname = e.file_name().into_string().unwrap();
        let stem = fname.trim_end_matches(".rs");
        if !(fname.starts_with('c') && fname.ends_with(".rs") && (stem.len() == 3 || stem.ends_with("_auto"))) {
            continue;
        }
        let module = stem;
        let feature = &stem[..3];
        if env::var(format!("CARGO_FEATURE_{}", feature.to_uppercase())).is_err() {
            continue;
        }
        let text = fs::read_to_string(e.path()).unwrap();
        let mut pending = false;
        for line in text.lines() {
            let t = line.trim_start();
            if t.starts_with("// @h") {
                pending = !(t.contains("tier=thorough") && env::var("CARGO_FEATURE_THOROUGH").is_err());
            } else if pending && t.starts_with("pub fn ") {
                let name = t["pub fn ".len()..].split('(').next().unwrap().trim();
                table.push_str(&format!("    (\"{name}\", crate::{module}::{name}),\n"));
                pending = false;
            }
        }
    }
    table.push_str("];\n");
    fs::write(Path::new(&out).join("registry.rs"), table).unwrap();
}
